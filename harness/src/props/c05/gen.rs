//! Generator of ST projects with MANY named entities (types, functions, interfaces,
//! classes, function blocks with methods and inheritance, programs, globals, tasks, I/O
//! bindings, retain variables, namespaces), split over 1-4 source files, plus an input and
//! clock trace. A deterministic function of a choice tape: low tape values give the
//! smallest project, so shrinking the tape shrinks the project.
//!
//! Everything is type-directed (no rejection): assignments and arguments have exactly the
//! declared type and literals are typed (`INT#5`), so finding F8 (a value keeps the type
//! of the expression) is not in play. Loops are bounded by construction.

use serde::{Deserialize, Serialize};

use crate::engine::tape::{Reader, Tape};

#[derive(Clone, Debug, Serialize, Deserialize, PartialEq)]
pub struct SrcFile {
    pub path: Option<String>,
    pub text: String,
    /// bytes of comment padding appended when the file is handed to the compiler / written to
    /// disk (`expand`): comments count towards the byte size of a project and cost little
    #[serde(default)]
    pub pad: u32,
}

/// The text the compiler sees: `text` followed by `pad` bytes of block comments.
pub fn expand(f: &SrcFile) -> String {
    if f.pad == 0 {
        return f.text.clone();
    }
    let mut out = String::with_capacity(f.text.len() + f.pad as usize + 2);
    out.push_str(&f.text);
    out.push('\n');
    let mut left = f.pad as usize;
    let mut i = 0usize;
    while left >= 100 {
        out.push_str(&format!("(* pad {i:07} {} *)\n", "p".repeat(82)));
        left -= 100;
        i += 1;
    }
    out.push_str(&" ".repeat(left));
    out
}

/// Successive builds of a project on disk in ONE bundle root, with changes of the source set
/// between them; the state before the last build equals the project's own files.
#[derive(Clone, Debug, Serialize, Deserialize, PartialEq)]
pub struct BuildHistory {
    pub steps: Vec<HistStep>,
}

#[derive(Clone, Debug, Serialize, Deserialize, PartialEq)]
pub struct HistStep {
    pub ops: Vec<FileOp>,
}

#[derive(Clone, Copy, Debug, Serialize, Deserialize, PartialEq)]
pub enum MTime {
    /// leave what the file system sets
    Now,
    /// back-dated: 1000 s before the current time (older than any artefact)
    Older,
    /// 1000 s in the future
    Newer,
    /// exactly the artefact's mtime (if there is one)
    EqualArtefact,
}

#[derive(Clone, Debug, Serialize, Deserialize, PartialEq)]
pub enum FileOp {
    /// write project file `file` (index): its final text, or an alternative version with one more
    /// function
    Write { file: usize, alt: bool, mtime: MTime },
    /// a file that is not part of the final project (one tiny function)
    WriteExtra { k: u8, mtime: MTime },
    DeleteExtra { k: u8 },
    Delete { file: usize },
    SetMtime { file: usize, mtime: MTime },
    TouchArtefact { mtime: MTime },
}

#[derive(Clone, Debug, Serialize, Deserialize, PartialEq)]
pub enum Lit {
    Bool(bool),
    Int(i16),
    DInt(i32),
    LInt(i64),
    UInt(u16),
    /// f32 bits
    Real(u32),
    /// f64 bits
    LReal(u64),
}

#[derive(Clone, Debug, Serialize, Deserialize, PartialEq)]
pub enum Write {
    /// `set_direct_input(addr, value)`
    Direct { addr: String, val: Lit },
    /// `storage.set_global(name, value)` (only when the global exists)
    Global { name: String, val: Lit },
}

#[derive(Clone, Debug, Serialize, Deserialize, PartialEq)]
pub struct Step {
    pub dt_ns: i64,
    pub writes: Vec<Write>,
}

#[derive(Clone, Copy, Debug, PartialEq, Eq)]
pub enum S {
    Bool,
    Int,
    DInt,
    LInt,
    UInt,
    Real,
    LReal,
}

const SCALARS: [S; 7] = [S::Bool, S::Int, S::DInt, S::LInt, S::UInt, S::Real, S::LReal];

impl S {
    fn name(self) -> &'static str {
        match self {
            S::Bool => "BOOL",
            S::Int => "INT",
            S::DInt => "DINT",
            S::LInt => "LINT",
            S::UInt => "UINT",
            S::Real => "REAL",
            S::LReal => "LREAL",
        }
    }
    fn is_int(self) -> bool {
        matches!(self, S::Int | S::DInt | S::LInt | S::UInt)
    }
    fn io_size(self) -> (char, usize) {
        match self {
            S::Bool => ('X', 1),
            S::Int | S::UInt => ('W', 2),
            S::DInt | S::Real => ('D', 4),
            S::LInt | S::LReal => ('L', 8),
        }
    }
}

fn lit_text(s: S, r: &mut Reader) -> String {
    match s {
        S::Bool => if r.flag() { "TRUE" } else { "FALSE" }.to_string(),
        S::Int => format!("INT#{}", [0i64, 1, 2, 3, 5, 7, -1, -4, 10, 25, 100, -100][r.pick(12)]),
        S::DInt => format!("DINT#{}", [0i64, 1, 2, 3, 6, 9, -1, -7, 12, 1000, 65536, -65536][r.pick(12)]),
        S::LInt => format!("LINT#{}", [0i64, 1, 2, 4, 11, -1, -3, 1000000, 4294967296][r.pick(9)]),
        S::UInt => format!("UINT#{}", [0i64, 1, 2, 3, 8, 13, 255, 1000][r.pick(8)]),
        S::Real => format!("REAL#{}", ["0.0", "1.0", "0.5", "2.5", "-1.0", "10.0", "0.125", "3.0E2"][r.pick(8)]),
        S::LReal => format!("LREAL#{}", ["0.0", "1.0", "0.25", "1.5", "-2.0", "100.0", "1.0E-3", "7.0"][r.pick(8)]),
    }
}

fn nonzero_lit(s: S, r: &mut Reader) -> String {
    match s {
        S::Int => format!("INT#{}", [7, 3, 11, 50, 100][r.pick(5)]),
        S::DInt => format!("DINT#{}", [7, 3, 13, 100, 1000][r.pick(5)]),
        S::LInt => format!("LINT#{}", [7, 5, 17, 1000][r.pick(4)]),
        S::UInt => format!("UINT#{}", [7, 3, 10, 100][r.pick(4)]),
        S::Real => format!("REAL#{}", ["2.0", "4.0", "0.5"][r.pick(3)]),
        S::LReal => format!("LREAL#{}", ["2.0", "8.0", "0.25"][r.pick(3)]),
        S::Bool => "TRUE".into(),
    }
}

const STEMS: &[&str] = &[
    "Pump", "valve", "Mixer", "tank", "Motor", "axis", "Conv", "heat", "Cool", "fan", "Gate", "lift",
    "Feed", "dose", "Fill", "seal", "Pack", "sort", "Scan", "weld", "Bend", "press", "Roll", "wash",
    "Dry", "mix", "Load", "dock", "Crane", "robot", "Belt", "oven", "Kiln", "silo", "Hopper", "boiler",
    "Chill", "comp", "Drive", "zone", "Alpha", "beta", "Gamma", "delta", "Omega", "kappa", "Sigma", "theta",
];

#[derive(Clone, Debug)]
struct Method {
    name: String,
    params: Vec<(String, S)>,
    ret: S,
}

#[derive(Clone, Debug)]
struct Itf {
    name: String,
    all_methods: Vec<Method>,
}

#[derive(Clone, Debug)]
struct Func {
    name: String,
    params: Vec<(String, S)>,
    ret: S,
}

#[derive(Clone, Debug)]
struct ClassLike {
    name: String,
    is_fb: bool,
    itfs: Vec<usize>,
    /// own + inherited scalar member variables (visible inside bodies and methods)
    members: Vec<(String, S)>,
    /// members readable from outside (`VAR PUBLIC` and `VAR_OUTPUT`)
    public: Vec<(String, S)>,
    inputs: Vec<(String, S)>,
    /// all callable methods (inherited included)
    methods: Vec<Method>,
}

#[derive(Clone, Debug)]
enum UType {
    Enum { name: String, variants: Vec<String> },
    Struct { name: String, fields: Vec<(String, S)> },
    Arr { name: String, lo: i64, hi: i64, elem: S },
    Alias { name: String, base: S },
}

impl UType {
    fn name(&self) -> &str {
        match self {
            UType::Enum { name, .. } | UType::Struct { name, .. } | UType::Arr { name, .. } | UType::Alias { name, .. } => name,
        }
    }
}

#[derive(Clone, Copy, Debug, PartialEq, Eq)]
enum StdFb {
    Ton,
    Tof,
    Tp,
    Ctu,
    Ctd,
    RTrig,
    FTrig,
    Sr,
    Rs,
}

impl StdFb {
    fn type_name(self) -> &'static str {
        match self {
            StdFb::Ton => "TON",
            StdFb::Tof => "TOF",
            StdFb::Tp => "TP",
            StdFb::Ctu => "CTU",
            StdFb::Ctd => "CTD",
            StdFb::RTrig => "R_TRIG",
            StdFb::FTrig => "F_TRIG",
            StdFb::Sr => "SR",
            StdFb::Rs => "RS",
        }
    }
}

const STD_FBS: [StdFb; 9] = [
    StdFb::Ton,
    StdFb::Tof,
    StdFb::Tp,
    StdFb::Ctu,
    StdFb::Ctd,
    StdFb::RTrig,
    StdFb::FTrig,
    StdFb::Sr,
    StdFb::Rs,
];

/// What a body can see.
#[derive(Clone, Default)]
struct Env {
    reads: Vec<(String, S)>,
    writes: Vec<(String, S)>,
    times: Vec<String>,
    /// readable TIME places (timer ET outputs)
    times_ro: Vec<String>,
    strs: Vec<String>,
    enums: Vec<(String, usize)>,
    /// (variable, array type index)
    arrays: Vec<(String, usize)>,
    /// DINT loop counters reserved for FOR loops (never assigned elsewhere)
    counters: Vec<String>,
    /// (instance, classlike index); FB instances are also callable
    objs: Vec<(String, usize)>,
    stdfbs: Vec<(String, StdFb)>,
    /// (variable, interface index)
    itfs: Vec<(String, usize)>,
    /// functions with index < this may be called (acyclic call graph)
    funcs_upto: usize,
    /// SUPER.<method> calls allowed for these methods (inside a derived classlike)
    super_methods: Vec<Method>,
}

impl Env {
    fn rw(&mut self, name: &str, s: S) {
        self.reads.push((name.to_string(), s));
        self.writes.push((name.to_string(), s));
    }
    fn ro(&mut self, name: &str, s: S) {
        self.reads.push((name.to_string(), s));
    }
}

#[derive(Default, Clone, Debug, Serialize, Deserialize)]
pub struct GenStats {
    pub types: usize,
    pub functions: usize,
    pub interfaces: usize,
    pub classes: usize,
    pub fbs: usize,
    pub methods: usize,
    pub programs: usize,
    pub globals: usize,
    pub tasks: usize,
    pub namespaces: usize,
    pub io_bindings: usize,
    pub retain_vars: usize,
    pub files: usize,
    pub configuration: bool,
    pub derived: usize,
    /// program instances without a task (run as background programs every cycle)
    #[serde(default)]
    pub background: usize,
    /// STRUCT and ARRAY types (declared or inline)
    #[serde(default)]
    pub aggregate_types: usize,
    /// 0 no paths, 1 relative, 2 mixed, 3 absolute
    #[serde(default)]
    pub path_mode: usize,
    /// bytes of source text incl. padding
    #[serde(default)]
    pub total_bytes: usize,
}

/// One small tape per entity, so that proptest shrinks by dropping whole entities.
#[derive(Clone, Debug, Serialize, Deserialize)]
pub struct Tapes {
    pub head: Tape,
    pub types: Vec<Tape>,
    pub globals: Vec<Tape>,
    pub funcs: Vec<Tape>,
    pub itfs: Vec<Tape>,
    pub classlikes: Vec<Tape>,
    pub programs: Vec<Tape>,
    pub config: Tape,
    pub layout: Tape,
    pub steps: Vec<Tape>,
    pub hist: Tape,
}

pub struct Generated {
    pub files: Vec<SrcFile>,
    pub trace: Vec<Step>,
    pub stats: GenStats,
    /// (save interval in simulated ns or None, file store?) - None = no retain store
    pub retain: Option<(Option<i64>, bool)>,
    pub history: Option<BuildHistory>,
}

/// Prefix of absolute source paths; the check replaces it by a per-batch scratch directory.
pub const ABS_PREFIX: &str = "@ABS@";

#[derive(Clone, Debug)]
struct Global {
    name: String,
    ty: S,
    at: Option<String>,
    retain: bool,
    constant: bool,
    init: Option<String>,
    /// the trace may overwrite it
    settable: bool,
}

struct Gen<'a> {
    r: Reader<'a>,
    next_id: usize,
    types: Vec<UType>,
    funcs: Vec<Func>,
    itfs: Vec<Itf>,
    classlikes: Vec<ClassLike>,
    globals: Vec<Global>,
    /// BOOL globals usable as SINGLE triggers
    stats: GenStats,
    /// rendered units: (is_type_unit, text)
    units: Vec<(bool, String)>,
    in_bytes: usize,
    out_bytes: usize,
    mem_bytes: usize,
    inputs: Vec<(String, S)>,
    has_config: bool,
    multi_file: bool,
    retain_interval: Option<i64>,
}

impl<'a> Gen<'a> {
    fn ident(&mut self, prefix: &str) -> String {
        let stem = STEMS[self.r.pick(STEMS.len())];
        let id = self.next_id;
        self.next_id += 1;
        format!("{prefix}{stem}{id}")
    }

    fn scalar(&mut self) -> S {
        SCALARS[self.r.weighted(&[3, 4, 5, 2, 2, 3, 2])]
    }

    // ------------------------------------------------------------------ expressions

    fn place(&mut self, env: &Env, s: S) -> Option<String> {
        let c: Vec<&String> = env.reads.iter().filter(|(_, t)| *t == s).map(|(n, _)| n).collect();
        if c.is_empty() {
            None
        } else {
            Some(c[self.r.pick(c.len())].clone())
        }
    }

    fn atom(&mut self, env: &Env, s: S) -> String {
        if self.r.chance(3, 4) {
            if let Some(p) = self.place(env, s) {
                return p;
            }
        }
        lit_text(s, &mut self.r)
    }

    fn expr(&mut self, env: &Env, s: S, depth: u32) -> String {
        if depth == 0 || self.r.chance(1, 4) {
            return self.atom(env, s);
        }
        match s {
            S::Bool => match self.r.weighted(&[4, 3, 2, 2, 1, 1]) {
                0 => {
                    // comparison of two scalars of one numeric type
                    let t = [S::Int, S::DInt, S::LInt, S::UInt, S::Real, S::LReal][self.r.pick(6)];
                    let a = self.expr(env, t, depth - 1);
                    let b = self.expr(env, t, depth - 1);
                    let op = ["<", "<=", ">", ">=", "=", "<>"][self.r.pick(6)];
                    format!("({a} {op} {b})")
                }
                1 => {
                    let a = self.expr(env, S::Bool, depth - 1);
                    let b = self.expr(env, S::Bool, depth - 1);
                    let op = ["AND", "OR", "XOR"][self.r.pick(3)];
                    format!("({a} {op} {b})")
                }
                2 => format!("(NOT {})", self.expr(env, S::Bool, depth - 1)),
                3 => {
                    let all_times: Vec<String> = env.times.iter().chain(env.times_ro.iter()).cloned().collect();
                    if !all_times.is_empty() {
                        let t = all_times[self.r.pick(all_times.len())].clone();
                        let op = ["<", ">=", "="][self.r.pick(3)];
                        let lit = ["T#0ms", "T#5ms", "T#20ms", "T#1s"][self.r.pick(4)];
                        format!("({t} {op} {lit})")
                    } else {
                        self.atom(env, s)
                    }
                }
                4 => {
                    if !env.enums.is_empty() {
                        let (v, k) = env.enums[self.r.pick(env.enums.len())].clone();
                        if let UType::Enum { name, variants } = &self.types[k] {
                            let var = variants[self.r.pick(variants.len())].clone();
                            let name = name.clone();
                            let op = ["=", "<>"][self.r.pick(2)];
                            return format!("({v} {op} {name}#{var})");
                        }
                    }
                    self.atom(env, s)
                }
                _ => self.call_expr(env, s, depth).unwrap_or_else(|| lit_text(s, &mut self.r)),
            },
            _ => match self.r.weighted(&[5, 3, 2, 2, 3, 2]) {
                0 => {
                    let a = self.expr(env, s, depth - 1);
                    let b = self.expr(env, s, depth - 1);
                    if s == S::UInt {
                        format!("(({a} MOD UINT#1000) + ({b} MOD UINT#1000))")
                    } else if s.is_int() {
                        let m = nonzero_lit(s, &mut self.r);
                        let op = ["+", "-"][self.r.pick(2)];
                        format!("(({a} MOD {m}) {op} ({b} MOD {m}))")
                    } else {
                        let op = ["+", "-", "*"][self.r.pick(3)];
                        format!("({a} {op} {b})")
                    }
                }
                1 => {
                    let a = self.expr(env, s, depth - 1);
                    let m = nonzero_lit(s, &mut self.r);
                    if s.is_int() {
                        let op = ["/", "MOD"][self.r.pick(2)];
                        if self.r.chance(1, 200) {
                            // value-dependent fault (division by zero) now and then
                            let b = self.atom(env, s);
                            return format!("({a} {op} {b})");
                        }
                        format!("({a} {op} {m})")
                    } else {
                        format!("({a} / {m})")
                    }
                }
                2 => {
                    // multiplication of bounded operands
                    let a = self.expr(env, s, depth - 1);
                    if s.is_int() {
                        let m = nonzero_lit(s, &mut self.r);
                        let k = ["2", "3", "5"][self.r.pick(3)];
                        format!("(({a} MOD {m}) * {}#{k})", s.name())
                    } else {
                        format!("({a} * {})", nonzero_lit(s, &mut self.r))
                    }
                }
                3 => {
                    let c = self.expr(env, S::Bool, depth - 1);
                    let a = self.expr(env, s, depth - 1);
                    let b = self.expr(env, s, depth - 1);
                    match self.r.pick(3) {
                        0 => format!("SEL({c}, {a}, {b})"),
                        1 => format!("MAX({a}, {b})"),
                        _ => format!("MIN({a}, {b})"),
                    }
                }
                4 => self.call_expr(env, s, depth).unwrap_or_else(|| self.atom(env, s)),
                _ => self.conv_expr(env, s, depth),
            },
        }
    }

    /// Conversion from another scalar type, operand bounded so that it fits.
    fn conv_expr(&mut self, env: &Env, s: S, depth: u32) -> String {
        let d = depth.saturating_sub(1);
        match s {
            S::Int => match self.r.pick(2) {
                0 => format!("DINT_TO_INT({} MOD DINT#1000)", self.expr(env, S::DInt, d)),
                _ => format!("UINT_TO_INT({} MOD UINT#1000)", self.expr(env, S::UInt, d)),
            },
            S::DInt => match self.r.pick(3) {
                0 => format!("INT_TO_DINT({})", self.expr(env, S::Int, d)),
                1 => format!("UINT_TO_DINT({})", self.expr(env, S::UInt, d)),
                _ => format!("LINT_TO_DINT({} MOD LINT#100000)", self.expr(env, S::LInt, d)),
            },
            S::LInt => match self.r.pick(2) {
                0 => format!("DINT_TO_LINT({})", self.expr(env, S::DInt, d)),
                _ => format!("INT_TO_LINT({})", self.expr(env, S::Int, d)),
            },
            S::UInt => format!("INT_TO_UINT(ABS({} MOD INT#1000))", self.expr(env, S::Int, d)),
            S::Real => match self.r.pick(2) {
                0 => format!("INT_TO_REAL({})", self.expr(env, S::Int, d)),
                _ => format!("DINT_TO_REAL({} MOD DINT#100000)", self.expr(env, S::DInt, d)),
            },
            S::LReal => match self.r.pick(2) {
                0 => format!("REAL_TO_LREAL({})", self.expr(env, S::Real, d)),
                _ => format!("DINT_TO_LREAL({})", self.expr(env, S::DInt, d)),
            },
            S::Bool => self.atom(env, s),
        }
    }

    fn args(&mut self, env: &Env, params: &[(String, S)], depth: u32, formal: bool) -> String {
        let mut parts = Vec::new();
        for (n, t) in params {
            let e = self.expr(env, *t, depth.saturating_sub(1));
            if formal {
                parts.push(format!("{n} := {e}"));
            } else {
                parts.push(e);
            }
        }
        parts.join(", ")
    }

    /// A call (function / method / interface method / SUPER method) returning `s`.
    fn call_expr(&mut self, env: &Env, s: S, depth: u32) -> Option<String> {
        let mut cands: Vec<(String, Vec<(String, S)>)> = Vec::new();
        for f in self.funcs.iter().take(env.funcs_upto) {
            if f.ret == s {
                cands.push((f.name.clone(), f.params.clone()));
            }
        }
        for (inst, k) in &env.objs {
            // a method call on an instance of a namespaced class/FB compiles but faults with
            // UndefinedField at run time: such instances are only invoked / read
            if self.classlikes[*k].name.contains('.') {
                continue;
            }
            for m in &self.classlikes[*k].methods {
                if m.ret == s {
                    cands.push((format!("{inst}.{}", m.name), m.params.clone()));
                }
            }
        }
        for (var, k) in &env.itfs {
            for m in &self.itfs[*k].all_methods {
                if m.ret == s {
                    cands.push((format!("{var}.{}", m.name), m.params.clone()));
                }
            }
        }
        for m in &env.super_methods {
            if m.ret == s {
                cands.push((format!("SUPER.{}", m.name), m.params.clone()));
            }
        }
        if cands.is_empty() {
            return None;
        }
        let (name, params) = cands[self.r.pick(cands.len())].clone();
        let formal = !params.is_empty() && self.r.chance(1, 3) && depth >= 3;
        let a = self.args(env, &params, depth, formal);
        Some(format!("{name}({a})"))
    }

    // ------------------------------------------------------------------ statements

    fn assign(&mut self, env: &Env, out: &mut String, ind: &str) {
        if env.writes.is_empty() {
            return;
        }
        let (n, s) = env.writes[self.r.pick(env.writes.len())].clone();
        let e = self.expr(env, s, 3);
        out.push_str(&format!("{ind}{n} := {e};\n"));
    }

    fn stmt(&mut self, env: &Env, out: &mut String, depth: u32, ind: &str, free_counters: &mut Vec<String>) {
        let inner = format!("{ind}  ");
        match self.r.weighted(&[10, 3, 2, 2, 1, 3, 3, 2, 2, 2, 1]) {
            0 => self.assign(env, out, ind),
            1 if depth > 0 => {
                let c = self.expr(env, S::Bool, 2);
                out.push_str(&format!("{ind}IF {c} THEN\n"));
                let n = 1 + self.r.pick(2);
                self.block(env, out, depth - 1, &inner, n, free_counters);
                if self.r.chance(1, 3) {
                    let c2 = self.expr(env, S::Bool, 2);
                    out.push_str(&format!("{ind}ELSIF {c2} THEN\n"));
                    self.block(env, out, depth - 1, &inner, 1, free_counters);
                }
                if self.r.chance(1, 2) {
                    out.push_str(&format!("{ind}ELSE\n"));
                    self.block(env, out, depth - 1, &inner, 1, free_counters);
                }
                out.push_str(&format!("{ind}END_IF;\n"));
            }
            2 if depth > 0 => {
                let t = [S::Int, S::DInt][self.r.pick(2)];
                let sel = self.expr(env, t, 2);
                let m = if t == S::Int { "INT#6" } else { "DINT#6" };
                out.push_str(&format!("{ind}CASE ({sel} MOD {m}) OF\n"));
                out.push_str(&format!("{inner}0:\n"));
                self.block(env, out, depth - 1, &format!("{inner}  "), 1, free_counters);
                out.push_str(&format!("{inner}1, 2:\n"));
                self.block(env, out, depth - 1, &format!("{inner}  "), 1, free_counters);
                if self.r.flag() {
                    out.push_str(&format!("{inner}3..5:\n"));
                    self.block(env, out, depth - 1, &format!("{inner}  "), 1, free_counters);
                }
                if self.r.flag() {
                    out.push_str(&format!("{ind}ELSE\n"));
                    self.block(env, out, depth - 1, &inner, 1, free_counters);
                }
                out.push_str(&format!("{ind}END_CASE;\n"));
            }
            3 if depth > 0 && !free_counters.is_empty() => {
                // FOR over an array (or a small fixed range) with a reserved counter
                let i = free_counters.pop().unwrap();
                if !env.arrays.is_empty() && self.r.chance(3, 4) {
                    let (a, k) = env.arrays[self.r.pick(env.arrays.len())].clone();
                    if let UType::Arr { lo, hi, elem, .. } = self.types[k].clone() {
                        out.push_str(&format!("{ind}FOR {i} := DINT#{lo} TO DINT#{hi} DO\n"));
                        let e = self.expr(env, elem, 2);
                        if self.r.flag() {
                            out.push_str(&format!("{inner}{a}[{i}] := {e};\n"));
                        } else if let Some((w, _)) = env.writes.iter().find(|(_, t)| *t == elem).cloned() {
                            out.push_str(&format!("{inner}{w} := {a}[{i}];\n"));
                            out.push_str(&format!("{inner}{a}[{i}] := {e};\n"));
                        } else {
                            out.push_str(&format!("{inner}{a}[{i}] := {e};\n"));
                        }
                        out.push_str(&format!("{ind}END_FOR;\n"));
                    }
                } else {
                    let hi = 1 + self.r.pick(4);
                    let by = if self.r.chance(1, 4) { " BY DINT#2" } else { "" };
                    out.push_str(&format!("{ind}FOR {i} := DINT#0 TO DINT#{hi}{by} DO\n"));
                    let n = 1 + self.r.pick(2);
                    self.block(env, out, depth - 1, &inner, n, free_counters);
                    out.push_str(&format!("{ind}END_FOR;\n"));
                }
                free_counters.push(i);
            }
            4 if depth > 0 && !free_counters.is_empty() => {
                let i = free_counters.pop().unwrap();
                let n = 1 + self.r.pick(4);
                if self.r.flag() {
                    out.push_str(&format!("{ind}{i} := DINT#0;\n{ind}WHILE {i} < DINT#{n} DO\n"));
                    self.block(env, out, depth - 1, &inner, 1, free_counters);
                    out.push_str(&format!("{inner}{i} := {i} + DINT#1;\n{ind}END_WHILE;\n"));
                } else {
                    out.push_str(&format!("{ind}{i} := DINT#0;\n{ind}REPEAT\n"));
                    self.block(env, out, depth - 1, &inner, 1, free_counters);
                    out.push_str(&format!("{inner}{i} := {i} + DINT#1;\n{ind}UNTIL {i} >= DINT#{n}\n{ind}END_REPEAT;\n"));
                }
                free_counters.push(i);
            }
            5 => {
                // user FB invocation
                let fbs: Vec<(String, usize)> = env.objs.iter().filter(|(_, k)| self.classlikes[*k].is_fb).cloned().collect();
                if fbs.is_empty() {
                    return self.assign(env, out, ind);
                }
                let (inst, k) = fbs[self.r.pick(fbs.len())].clone();
                let inputs = self.classlikes[k].inputs.clone();
                let mut parts = Vec::new();
                for (n, t) in &inputs {
                    if self.r.chance(5, 6) {
                        let e = self.expr(env, *t, 2);
                        parts.push(format!("{n} := {e}"));
                    }
                }
                out.push_str(&format!("{ind}{inst}({});\n", parts.join(", ")));
            }
            6 => {
                if env.stdfbs.is_empty() {
                    return self.assign(env, out, ind);
                }
                let (inst, kind) = env.stdfbs[self.r.pick(env.stdfbs.len())].clone();
                let b = self.expr(env, S::Bool, 2);
                match kind {
                    StdFb::Ton | StdFb::Tof | StdFb::Tp => {
                        let pt = ["T#0ms", "T#5ms", "T#15ms", "T#100ms", "T#2s"][self.r.pick(5)];
                        out.push_str(&format!("{ind}{inst}(IN := {b}, PT := {pt});\n"));
                    }
                    StdFb::Ctu => {
                        let rst = self.expr(env, S::Bool, 1);
                        out.push_str(&format!("{ind}{inst}(CU := {b}, R := {rst}, PV := INT#{});\n", 1 + self.r.pick(4)));
                    }
                    StdFb::Ctd => {
                        let ld = self.expr(env, S::Bool, 1);
                        out.push_str(&format!("{ind}{inst}(CD := {b}, LD := {ld}, PV := INT#{});\n", 1 + self.r.pick(4)));
                    }
                    StdFb::RTrig | StdFb::FTrig => out.push_str(&format!("{ind}{inst}(CLK := {b});\n")),
                    StdFb::Sr => {
                        let c = self.expr(env, S::Bool, 1);
                        out.push_str(&format!("{ind}{inst}(S1 := {b}, R := {c});\n"));
                    }
                    StdFb::Rs => {
                        let c = self.expr(env, S::Bool, 1);
                        out.push_str(&format!("{ind}{inst}(S := {b}, R1 := {c});\n"));
                    }
                }
            }
            7 => {
                if env.enums.is_empty() {
                    return self.assign(env, out, ind);
                }
                let (v, k) = env.enums[self.r.pick(env.enums.len())].clone();
                if let UType::Enum { name, variants } = self.types[k].clone() {
                    let var = &variants[self.r.pick(variants.len())];
                    out.push_str(&format!("{ind}{v} := {name}#{var};\n"));
                }
            }
            8 => {
                if env.times.is_empty() && env.strs.is_empty() {
                    return self.assign(env, out, ind);
                }
                if !env.times.is_empty() && (env.strs.is_empty() || self.r.flag()) {
                    let t = env.times[self.r.pick(env.times.len())].clone();
                    let timers: Vec<&String> = env
                        .stdfbs
                        .iter()
                        .filter(|(_, k)| matches!(k, StdFb::Ton | StdFb::Tof | StdFb::Tp))
                        .map(|(n, _)| n)
                        .collect();
                    if !timers.is_empty() && self.r.flag() {
                        let tm = timers[self.r.pick(timers.len())];
                        out.push_str(&format!("{ind}{t} := {tm}.ET;\n"));
                    } else {
                        let lit = ["T#0ms", "T#1ms", "T#10ms", "T#250ms", "T#1s500ms"][self.r.pick(5)];
                        out.push_str(&format!("{ind}{t} := {lit};\n"));
                    }
                } else {
                    let s = env.strs[self.r.pick(env.strs.len())].clone();
                    if env.strs.len() > 1 && self.r.flag() {
                        let o = env.strs[self.r.pick(env.strs.len())].clone();
                        out.push_str(&format!("{ind}{s} := {o};\n"));
                    } else {
                        let lit = ["''", "'a'", "'run'", "'Stop'", "'x-y'"][self.r.pick(5)];
                        out.push_str(&format!("{ind}{s} := {lit};\n"));
                    }
                }
            }
            9 => {
                // array element with a constant index (also out of the FOR loops)
                if env.arrays.is_empty() {
                    return self.assign(env, out, ind);
                }
                let (a, k) = env.arrays[self.r.pick(env.arrays.len())].clone();
                if let UType::Arr { lo, hi, elem, .. } = self.types[k].clone() {
                    let idx = lo + self.r.pick((hi - lo + 1) as usize) as i64;
                    let e = self.expr(env, elem, 2);
                    out.push_str(&format!("{ind}{a}[{idx}] := {e};\n"));
                }
            }
            10 => {
                // interface (re)binding followed by a call through it
                if env.itfs.is_empty() {
                    return self.assign(env, out, ind);
                }
                let (var, k) = env.itfs[self.r.pick(env.itfs.len())].clone();
                let impls: Vec<String> = env
                    .objs
                    .iter()
                    .filter(|(_, c)| self.classlikes[*c].itfs.contains(&k) && !self.classlikes[*c].name.contains('.'))
                    .map(|(n, _)| n.clone())
                    .collect();
                if impls.is_empty() {
                    return self.assign(env, out, ind);
                }
                let o = impls[self.r.pick(impls.len())].clone();
                out.push_str(&format!("{ind}{var} := {o};\n"));
            }
            _ => self.assign(env, out, ind),
        }
    }

    fn block(&mut self, env: &Env, out: &mut String, depth: u32, ind: &str, n: usize, free_counters: &mut Vec<String>) {
        for _ in 0..n {
            self.stmt(env, out, depth, ind, free_counters);
        }
    }

    /// Statements that bind every interface variable before anything can call through it.
    fn bind_interfaces(&mut self, env: &Env, out: &mut String) {
        for (var, k) in env.itfs.clone() {
            let impls: Vec<String> = env
                .objs
                .iter()
                .filter(|(_, c)| self.classlikes[*c].itfs.contains(&k) && !self.classlikes[*c].name.contains('.'))
                .map(|(n, _)| n.clone())
                .collect();
            if let Some(o) = impls.first() {
                let o = impls.get(self.r.pick(impls.len())).unwrap_or(o).clone();
                out.push_str(&format!("{var} := {o};\n"));
            }
        }
    }

    // ------------------------------------------------------------------ declarations

    fn gen_type(&mut self, ns: &[String]) {
        {
            let kind = self.r.weighted(&[2, 4, 3, 1]);
            // `Ns.Enum#Variant` is not accepted by the parser: enums stay global
            let prefix = if kind == 0 { let _ = self.r.word(); String::new() } else { self.ns_prefix(ns) };
            let mut text = String::new();
            let ut = match kind {
                0 => {
                    let name = self.ident("E_");
                    let nv = 2 + self.r.pick(4);
                    let mut variants = Vec::new();
                    for _ in 0..nv {
                        variants.push(self.ident("v"));
                    }
                    let explicit = self.r.flag();
                    let body: Vec<String> = variants
                        .iter()
                        .enumerate()
                        .map(|(i, v)| if explicit { format!("{v} := {}", i * 2 + 1) } else { v.clone() })
                        .collect();
                    text.push_str(&format!("TYPE {name} : ({});\nEND_TYPE\n", body.join(", ")));
                    UType::Enum { name: format!("{prefix}{name}"), variants }
                }
                1 => {
                    let name = self.ident("ST_");
                    self.stats.aggregate_types += 1;
                    let nf = 1 + self.r.pick(5);
                    let mut fields = Vec::new();
                    text.push_str(&format!("TYPE {name} :\nSTRUCT\n"));
                    for _ in 0..nf {
                        let f = self.ident("f");
                        let s = self.scalar();
                        if self.r.chance(1, 3) {
                            text.push_str(&format!("  {f} : {} := {};\n", s.name(), lit_text(s, &mut self.r)));
                        } else {
                            text.push_str(&format!("  {f} : {};\n", s.name()));
                        }
                        fields.push((f, s));
                    }
                    // non-scalar members (never referenced by bodies, only stored/encoded)
                    if self.r.chance(1, 3) {
                        let f = self.ident("lbl");
                        text.push_str(&format!("  {f} : STRING[{}] := 'n';\n", 4 + self.r.pick(20)));
                    }
                    if self.r.chance(1, 4) {
                        let f = self.ident("hist");
                        text.push_str(&format!("  {f} : ARRAY[0..{}] OF INT;\n", 1 + self.r.pick(3)));
                    }
                    let earlier: Vec<String> = self
                        .types
                        .iter()
                        .filter(|t| matches!(t, UType::Enum { .. } | UType::Struct { .. }))
                        .map(|t| t.name().to_string())
                        .collect();
                    if !earlier.is_empty() && self.r.chance(1, 3) {
                        let f = self.ident("sub");
                        let t = earlier[self.r.pick(earlier.len())].clone();
                        text.push_str(&format!("  {f} : {t};\n"));
                    }
                    text.push_str("END_STRUCT\nEND_TYPE\n");
                    UType::Struct { name: format!("{prefix}{name}"), fields }
                }
                2 => {
                    let name = self.ident("A_");
                    let lo = [0i64, 1, -2, 10][self.r.pick(4)];
                    let hi = lo + 1 + self.r.pick(5) as i64;
                    let elem = self.scalar();
                    self.stats.aggregate_types += 1;
                    if self.r.chance(1, 2) {
                        // inline array type: no TYPE declaration, every variable declared with
                        // it registers an anonymous array type of its own
                        UType::Arr { name: format!("ARRAY[{lo}..{hi}] OF {}", elem.name()), lo, hi, elem }
                    } else {
                        text.push_str(&format!("TYPE {name} : ARRAY[{lo}..{hi}] OF {}; END_TYPE\n", elem.name()));
                        UType::Arr { name: format!("{prefix}{name}"), lo, hi, elem }
                    }
                }
                _ => {
                    let name = self.ident("T_");
                    let base = self.scalar();
                    text.push_str(&format!("TYPE {name} : {}; END_TYPE\n", base.name()));
                    UType::Alias { name: format!("{prefix}{name}"), base }
                }
            };
            self.types.push(ut);
            self.stats.types += 1;
            if !text.is_empty() {
                let text = self.wrap_ns(&prefix, text);
                self.units.push((true, text));
            }
        }
    }

    fn ns_prefix(&mut self, ns: &[String]) -> String {
        if !ns.is_empty() && self.r.chance(1, 3) {
            format!("{}.", ns[self.r.pick(ns.len())])
        } else {
            String::new()
        }
    }

    fn wrap_ns(&self, prefix: &str, text: String) -> String {
        if prefix.is_empty() {
            text
        } else {
            format!("NAMESPACE {}\n{}END_NAMESPACE\n", prefix.trim_end_matches('.'), text)
        }
    }

    fn gen_params(&mut self, max: usize) -> Vec<(String, S)> {
        let n = self.r.pick(max + 1);
        let mut v = Vec::new();
        for _ in 0..n {
            let name = self.ident("p");
            let s = self.scalar();
            v.push((name, s));
        }
        v
    }

    /// Local variable declarations of many kinds; fills `env`.
    fn gen_locals(&mut self, env: &mut Env, n: usize, rich: bool) -> (String, Vec<(String, S)>) {
        let mut decl = String::new();
        let mut scalars = Vec::new();
        for _ in 0..n {
            let kind = if rich { self.r.weighted(&[8, 1, 1, 2, 3, 3, 1]) } else { self.r.weighted(&[8, 1, 1, 0, 0, 0, 0]) };
            match kind {
                0 => {
                    let name = self.ident("v");
                    let s = self.scalar();
                    if self.r.chance(1, 2) {
                        decl.push_str(&format!("  {name} : {} := {};\n", s.name(), lit_text(s, &mut self.r)));
                    } else {
                        decl.push_str(&format!("  {name} : {};\n", s.name()));
                    }
                    env.rw(&name, s);
                    scalars.push((name, s));
                }
                1 => {
                    let name = self.ident("t");
                    decl.push_str(&format!("  {name} : TIME := T#{}ms;\n", self.r.pick(50)));
                    env.times.push(name);
                }
                2 => {
                    let name = self.ident("s");
                    decl.push_str(&format!("  {name} : STRING[{}] := 'i';\n", 8 + self.r.pick(24)));
                    env.strs.push(name);
                }
                3 => {
                    let k: Vec<usize> = (0..self.types.len()).filter(|i| matches!(self.types[*i], UType::Enum { .. })).collect();
                    if k.is_empty() {
                        continue;
                    }
                    let k = k[self.r.pick(k.len())];
                    let name = self.ident("e");
                    if let UType::Enum { name: tn, variants } = self.types[k].clone() {
                        if self.r.flag() {
                            let v = &variants[self.r.pick(variants.len())];
                            decl.push_str(&format!("  {name} : {tn} := {tn}#{v};\n"));
                        } else {
                            decl.push_str(&format!("  {name} : {tn};\n"));
                        }
                    }
                    env.enums.push((name, k));
                }
                4 => {
                    let k: Vec<usize> = (0..self.types.len()).filter(|i| matches!(self.types[*i], UType::Struct { .. })).collect();
                    if k.is_empty() {
                        continue;
                    }
                    let k = k[self.r.pick(k.len())];
                    let name = self.ident("r");
                    if let UType::Struct { name: tn, fields } = self.types[k].clone() {
                        decl.push_str(&format!("  {name} : {tn};\n"));
                        for (f, s) in fields {
                            env.rw(&format!("{name}.{f}"), s);
                        }
                    }
                }
                5 => {
                    let k: Vec<usize> = (0..self.types.len()).filter(|i| matches!(self.types[*i], UType::Arr { .. })).collect();
                    if k.is_empty() {
                        continue;
                    }
                    let k = k[self.r.pick(k.len())];
                    let name = self.ident("a");
                    if let UType::Arr { name: tn, lo, hi, elem } = self.types[k].clone() {
                        decl.push_str(&format!("  {name} : {tn};\n"));
                        env.arrays.push((name.clone(), k));
                        env.ro(&format!("{name}[{lo}]"), elem);
                        env.ro(&format!("{name}[{hi}]"), elem);
                    }
                }
                _ => {
                    let k: Vec<usize> = (0..self.types.len()).filter(|i| matches!(self.types[*i], UType::Alias { .. })).collect();
                    if k.is_empty() {
                        continue;
                    }
                    let k = k[self.r.pick(k.len())];
                    let name = self.ident("al");
                    if let UType::Alias { name: tn, base } = self.types[k].clone() {
                        decl.push_str(&format!("  {name} : {tn} := {};\n", lit_text(base, &mut self.r)));
                        env.rw(&name, base);
                    }
                }
            }
        }
        (decl, scalars)
    }

    fn gen_counters(&mut self, env: &mut Env, decl: &mut String) -> Vec<String> {
        let mut v = Vec::new();
        for _ in 0..2 {
            let name = self.ident("i");
            decl.push_str(&format!("  {name} : DINT;\n"));
            env.counters.push(name.clone());
            v.push(name);
        }
        v
    }

    fn gen_function(&mut self, ns: &[String], body_len: usize) {
        {
            let prefix = self.ns_prefix(ns);
            let short = self.ident("Fn");
            let mut params = self.gen_params(3);
            if params.is_empty() && self.r.flag() {
                let name = self.ident("p");
                params.push((name, S::DInt));
            }
            let ret = self.scalar();
            let mut env = Env { funcs_upto: self.funcs.len(), ..Env::default() };
            let mut text = format!("FUNCTION {short} : {}\n", ret.name());
            if !params.is_empty() {
                text.push_str("VAR_INPUT\n");
                for (p, s) in &params {
                    text.push_str(&format!("  {p} : {};\n", s.name()));
                    env.ro(p, *s);
                }
                text.push_str("END_VAR\n");
            }
            let mut decl = String::new();
            let nl = self.r.pick(3);
            let (d, _) = self.gen_locals(&mut env, nl, false);
            decl.push_str(&d);
            let mut counters = self.gen_counters(&mut env, &mut decl);
            text.push_str(&format!("VAR\n{decl}END_VAR\n"));
            let mut body = String::new();
            let nb = self.r.pick(body_len + 1);
            self.block(&env, &mut body, 2, "", nb, &mut counters);
            text.push_str(&body);
            let e = self.expr(&env, ret, 3);
            text.push_str(&format!("{short} := {e};\nEND_FUNCTION\n"));
            self.funcs.push(Func { name: format!("{prefix}{short}"), params, ret });
            self.stats.functions += 1;
            let text = self.wrap_ns(&prefix, text);
            self.units.push((false, text));
        }
    }

    fn gen_interface(&mut self, ns: &[String]) {
        {
            let prefix = String::new();
            let _ = ns;
            let short = self.ident("I");
            let base = if !self.itfs.is_empty() && self.r.chance(1, 3) { Some(self.r.pick(self.itfs.len())) } else { None };
            let mut text = match base {
                Some(b) => format!("INTERFACE {short} EXTENDS {}\n", self.itfs[b].name),
                None => format!("INTERFACE {short}\n"),
            };
            let mut all = base.map(|b| self.itfs[b].all_methods.clone()).unwrap_or_default();
            let nm = 1 + self.r.pick(3);
            for _ in 0..nm {
                let name = self.ident("M");
                let params = self.gen_params(2);
                let ret = self.scalar();
                text.push_str(&format!("METHOD {name} : {}\n", ret.name()));
                if !params.is_empty() {
                    text.push_str("VAR_INPUT\n");
                    for (p, s) in &params {
                        text.push_str(&format!("  {p} : {};\n", s.name()));
                    }
                    text.push_str("END_VAR\n");
                }
                text.push_str("END_METHOD\n");
                all.push(Method { name, params, ret });
            }
            text.push_str("END_INTERFACE\n");
            self.itfs.push(Itf { name: format!("{prefix}{short}"), all_methods: all });
            self.stats.interfaces += 1;
            let text = self.wrap_ns(&prefix, text);
            self.units.push((false, text));
        }
    }

    fn render_method(&mut self, owner_env: &Env, m: &Method, body_len: usize, overrides: bool) -> String {
        let mut env = owner_env.clone();
        let mut text = format!("METHOD PUBLIC {}{} : {}\n", if overrides { "OVERRIDE " } else { "" }, m.name, m.ret.name());
        if !m.params.is_empty() {
            text.push_str("VAR_INPUT\n");
            for (p, s) in &m.params {
                text.push_str(&format!("  {p} : {};\n", s.name()));
                env.ro(p, *s);
            }
            text.push_str("END_VAR\n");
        }
        let mut decl = String::new();
        let nl = self.r.pick(2);
        let (d, _) = self.gen_locals(&mut env, nl, false);
        decl.push_str(&d);
        let mut counters = self.gen_counters(&mut env, &mut decl);
        text.push_str(&format!("VAR\n{decl}END_VAR\n"));
        let mut body = String::new();
        let nb = self.r.pick(body_len + 1);
        self.block(&env, &mut body, 1, "", nb, &mut counters);
        text.push_str(&body);
        let e = self.expr(&env, m.ret, 2);
        text.push_str(&format!("{} := {e};\nEND_METHOD\n", m.name));
        self.stats.methods += 1;
        text
    }

    fn gen_classlike(&mut self, ns: &[String], body_len: usize) {
        let is_fb = self.r.chance(5, 8);
        {
            let prefix = self.ns_prefix(ns);
            let short = self.ident(if is_fb { "FB_" } else { "C_" });
            // base: a class may extend a class; an FB may extend an FB or a class
            // a base named through a namespace (`EXTENDS Ns.Base`) compiles but the runtime does not
            // instantiate the inherited members (UndefinedVariable at run time): bases stay global
            let bases: Vec<usize> = (0..self.classlikes.len()).filter(|i| (is_fb || !self.classlikes[*i].is_fb) && !self.classlikes[*i].name.contains('.')).collect();
            let base = if !bases.is_empty() && self.r.chance(1, 3) { Some(bases[self.r.pick(bases.len())]) } else { None };
            let mut itf_idx: Vec<usize> = Vec::new();
            if !self.itfs.is_empty() && self.r.chance(1, 2) {
                itf_idx.push(self.r.pick(self.itfs.len()));
                if self.itfs.len() > 1 && self.r.chance(1, 4) {
                    let j = self.r.pick(self.itfs.len());
                    if !itf_idx.contains(&j) {
                        itf_idx.push(j);
                    }
                }
            }
            let mut head = format!("{} {short}", if is_fb { "FUNCTION_BLOCK" } else { "CLASS" });
            if let Some(b) = base {
                head.push_str(&format!(" EXTENDS {}", self.classlikes[b].name));
                self.stats.derived += 1;
            }
            if !itf_idx.is_empty() {
                let names: Vec<String> = itf_idx.iter().map(|i| self.itfs[*i].name.clone()).collect();
                head.push_str(&format!(" IMPLEMENTS {}", names.join(", ")));
            }
            let mut text = format!("{head}\n");
            let mut env = Env { funcs_upto: self.funcs.len(), ..Env::default() };
            let mut members: Vec<(String, S)> = Vec::new();
            let mut public: Vec<(String, S)> = Vec::new();
            let mut inputs: Vec<(String, S)> = Vec::new();
            let mut methods: Vec<Method> = Vec::new();
            let mut inherited_itfs: Vec<usize> = Vec::new();
            if let Some(b) = base {
                let bc = self.classlikes[b].clone();
                for (m, s) in &bc.members {
                    env.rw(m, *s);
                }
                for (m, s) in &bc.inputs {
                    env.ro(m, *s);
                }
                members = bc.members.clone();
                public = bc.public.clone();
                // inherited VAR_INPUTs are not accepted as call parameters of the derived FB (E105)
                inputs = Vec::new();
                methods = bc.methods.clone();
                inherited_itfs = bc.itfs.clone();
                env.super_methods = bc.methods.clone();
            }
            if is_fb {
                let ni = self.r.pick(4);
                if ni > 0 {
                    text.push_str("VAR_INPUT\n");
                    for _ in 0..ni {
                        let name = self.ident("in");
                        let s = self.scalar();
                        if self.r.chance(1, 3) {
                            text.push_str(&format!("  {name} : {} := {};\n", s.name(), lit_text(s, &mut self.r)));
                        } else {
                            text.push_str(&format!("  {name} : {};\n", s.name()));
                        }
                        env.ro(&name, s);
                        inputs.push((name, s));
                    }
                    text.push_str("END_VAR\n");
                }
                let no = 1 + self.r.pick(3);
                text.push_str("VAR_OUTPUT\n");
                for _ in 0..no {
                    let name = self.ident("out");
                    let s = self.scalar();
                    text.push_str(&format!("  {name} : {};\n", s.name()));
                    env.rw(&name, s);
                    members.push((name.clone(), s));
                    public.push((name, s));
                }
                text.push_str("END_VAR\n");
            }
            // public members
            let np = 1 + self.r.pick(3);
            text.push_str("VAR PUBLIC\n");
            for _ in 0..np {
                let name = self.ident("m");
                let s = self.scalar();
                text.push_str(&format!("  {name} : {} := {};\n", s.name(), lit_text(s, &mut self.r)));
                env.rw(&name, s);
                members.push((name.clone(), s));
                public.push((name, s));
            }
            text.push_str("END_VAR\n");
            // internal members of many kinds, nested instances
            let mut decl = String::new();
            let nl = self.r.pick(4);
            let (d, sc) = self.gen_locals(&mut env, nl, true);
            decl.push_str(&d);
            members.extend(sc);
            let mut counters = self.gen_counters(&mut env, &mut decl);
            if is_fb {
                // nested instances of earlier FBs / standard FBs
                let earlier_fbs: Vec<usize> = (0..self.classlikes.len()).filter(|i| self.classlikes[*i].is_fb).collect();
                if !earlier_fbs.is_empty() && self.r.chance(1, 3) {
                    let k = earlier_fbs[self.r.pick(earlier_fbs.len())];
                    let name = self.ident("fb");
                    decl.push_str(&format!("  {name} : {};\n", self.classlikes[k].name));
                    for (o, s) in self.classlikes[k].public.clone() {
                        env.ro(&format!("{name}.{o}"), s);
                    }
                    env.objs.push((name, k));
                }
                if self.r.chance(1, 2) {
                    let kind = STD_FBS[self.r.pick(STD_FBS.len())];
                    let name = self.ident("std");
                    decl.push_str(&format!("  {name} : {};\n", kind.type_name()));
                    add_std_outputs(&mut env, &name, kind);
                    env.stdfbs.push((name, kind));
                }
            }
            text.push_str(&format!("VAR\n{decl}END_VAR\n"));
            // methods: interface obligations first, then overrides, then new ones
            let mut to_render: Vec<Method> = Vec::new();
            for i in &itf_idx {
                for m in self.itfs[*i].all_methods.clone() {
                    if !to_render.iter().any(|x| x.name == m.name) {
                        to_render.push(m);
                    }
                }
            }
            if !methods.is_empty() && self.r.chance(1, 2) {
                let m = methods[self.r.pick(methods.len())].clone();
                if !to_render.iter().any(|x| x.name == m.name) {
                    to_render.push(m);
                }
            }
            let nm = self.r.pick(3);
            for _ in 0..nm {
                let name = self.ident("Do");
                let params = self.gen_params(2);
                let ret = self.scalar();
                to_render.push(Method { name, params, ret });
            }
            for m in &to_render {
                let overrides = methods.iter().any(|x| x.name == m.name);
                let t = self.render_method(&env, m, body_len, overrides);
                text.push_str(&t);
                if let Some(slot) = methods.iter_mut().find(|x| x.name == m.name) {
                    *slot = m.clone();
                } else {
                    methods.push(m.clone());
                }
            }
            if is_fb {
                let mut body = String::new();
                let nb = 1 + self.r.pick(body_len + 1);
                self.block(&env, &mut body, 2, "", nb, &mut counters);
                text.push_str(&body);
                text.push_str("END_FUNCTION_BLOCK\n");
                self.stats.fbs += 1;
            } else {
                text.push_str("END_CLASS\n");
                self.stats.classes += 1;
            }
            let mut all_itfs = inherited_itfs;
            for i in itf_idx {
                if !all_itfs.contains(&i) {
                    all_itfs.push(i);
                }
            }
            self.classlikes.push(ClassLike {
                name: format!("{prefix}{short}"),
                is_fb,
                itfs: all_itfs,
                members,
                public,
                inputs,
                methods,
            });
            let text = self.wrap_ns(&prefix, text);
            self.units.push((false, text));
        }
    }

    fn alloc_addr(&mut self, area: char, s: S) -> String {
        let (sz, bytes) = s.io_size();
        // 1 in 5 output/marker addresses overlaps the previous allocation of its area: two
        // bindings then publish into the same bytes and the order of publication shows
        let overlap = area != 'I' && self.r.chance(1, 5);
        let cursor = match area {
            'I' => &mut self.in_bytes,
            'Q' => &mut self.out_bytes,
            _ => &mut self.mem_bytes,
        };
        if overlap {
            *cursor = cursor.saturating_sub(if s == S::Bool { 1 } else { 2 });
        }
        if s == S::Bool {
            let byte = *cursor;
            *cursor += 1;
            format!("%{area}X{byte}.{}", byte % 8)
        } else {
            let at = *cursor;
            *cursor += bytes;
            format!("%{area}{sz}{at}")
        }
    }

    fn gen_global(&mut self) {
        {
            let s = self.scalar();
            let name = self.ident("g");
            let kind = self.r.weighted(&[8, 2, 2, 1, 2, 1]);
            let mut g = Global { name: name.clone(), ty: s, at: None, retain: false, constant: false, init: None, settable: false };
            match kind {
                0 => {
                    if self.r.flag() {
                        g.init = Some(lit_text(s, &mut self.r));
                    }
                    g.settable = self.r.chance(1, 3);
                }
                1 => {
                    let a = self.alloc_addr('I', s);
                    self.inputs.push((a.clone(), s));
                    g.at = Some(a);
                    self.stats.io_bindings += 1;
                }
                2 => {
                    g.at = Some(self.alloc_addr('Q', s));
                    self.stats.io_bindings += 1;
                }
                3 => {
                    g.at = Some(self.alloc_addr('M', s));
                    self.stats.io_bindings += 1;
                }
                4 => {
                    g.retain = true;
                    g.init = Some(lit_text(s, &mut self.r));
                    self.stats.retain_vars += 1;
                }
                _ => {
                    g.constant = true;
                    g.init = Some(lit_text(s, &mut self.r));
                }
            }
            self.globals.push(g);
            self.stats.globals += 1;
        }
    }

    /// Returns (program type name, FB instance names usable in `(fb WITH task)` lists).
    fn gen_program(&mut self, body_len: usize) -> (String, Vec<String>) {
        let name = self.ident("Prg");
        let mut env = Env { funcs_upto: self.funcs.len(), ..Env::default() };
        let mut text = format!("PROGRAM {name}\n");
        // externals
        if self.has_config && !self.globals.is_empty() {
            let want = self.r.pick(8);
            let mut chosen: Vec<usize> = Vec::new();
            for _ in 0..want {
                let k = self.r.pick(self.globals.len());
                if !chosen.contains(&k) {
                    chosen.push(k);
                }
            }
            if !chosen.is_empty() {
                let mut plain = String::new();
                let mut consts = String::new();
                for k in chosen {
                    let g = self.globals[k].clone();
                    if g.constant {
                        consts.push_str(&format!("  {} : {};\n", g.name, g.ty.name()));
                        env.ro(&g.name, g.ty);
                    } else {
                        plain.push_str(&format!("  {} : {};\n", g.name, g.ty.name()));
                        let is_input = g.at.as_deref().map(|a| a.starts_with("%I")).unwrap_or(false);
                        if is_input {
                            env.ro(&g.name, g.ty);
                        } else {
                            env.rw(&g.name, g.ty);
                        }
                    }
                }
                if !plain.is_empty() {
                    text.push_str(&format!("VAR_EXTERNAL\n{plain}END_VAR\n"));
                }
                if !consts.is_empty() {
                    text.push_str(&format!("VAR_EXTERNAL CONSTANT\n{consts}END_VAR\n"));
                }
            }
        }
        let mut decl = String::new();
        let nl = 2 + self.r.pick(10);
        let (d, _) = self.gen_locals(&mut env, nl, true);
        decl.push_str(&d);
        let mut counters = self.gen_counters(&mut env, &mut decl);
        // instances
        let mut fb_insts = Vec::new();
        if !self.classlikes.is_empty() {
            let ni = self.r.pick(6);
            for _ in 0..ni {
                let k = self.r.pick(self.classlikes.len());
                let inst = self.ident(if self.classlikes[k].is_fb { "fb" } else { "ob" });
                decl.push_str(&format!("  {inst} : {};\n", self.classlikes[k].name));
                for (o, s) in self.classlikes[k].public.clone() {
                    env.ro(&format!("{inst}.{o}"), s);
                }
                if self.classlikes[k].is_fb {
                    fb_insts.push(inst.clone());
                }
                env.objs.push((inst, k));
            }
        }
        let nstd = self.r.pick(4);
        for _ in 0..nstd {
            let kind = STD_FBS[self.r.pick(STD_FBS.len())];
            let inst = self.ident("std");
            decl.push_str(&format!("  {inst} : {};\n", kind.type_name()));
            add_std_outputs(&mut env, &inst, kind);
            env.stdfbs.push((inst, kind));
        }
        // interface variables for interfaces some instance implements
        let mut itf_cands: Vec<usize> = Vec::new();
        for (_, k) in &env.objs {
            if self.classlikes[*k].name.contains('.') {
                continue;
            }
            for i in &self.classlikes[*k].itfs {
                if !itf_cands.contains(i) {
                    itf_cands.push(*i);
                }
            }
        }
        for i in itf_cands {
            // the checker only knows `IMPLEMENTS` of classes declared in the same file as the
            // assignment (E203 otherwise): interface variables only in single-file projects
            if self.r.chance(2, 3) && !self.multi_file {
                let var = self.ident("if");
                decl.push_str(&format!("  {var} : {};\n", self.itfs[i].name));
                env.itfs.push((var, i));
            }
        }
        text.push_str(&format!("VAR\n{decl}END_VAR\n"));
        // retain block
        if self.r.chance(1, 3) {
            let n = 1 + self.r.pick(2);
            let mut d = String::new();
            for _ in 0..n {
                let v = self.ident("keep");
                let s = self.scalar();
                d.push_str(&format!("  {v} : {} := {};\n", s.name(), lit_text(s, &mut self.r)));
                env.rw(&v, s);
                self.stats.retain_vars += 1;
            }
            text.push_str(&format!("VAR RETAIN\n{d}END_VAR\n"));
        }
        // directly represented variables
        if self.r.chance(1, 2) {
            let n = 1 + self.r.pick(3);
            let mut d = String::new();
            for _ in 0..n {
                let s = self.scalar();
                let v = self.ident("io");
                let area = ['I', 'Q', 'Q', 'M'][self.r.pick(4)];
                let a = self.alloc_addr(area, s);
                d.push_str(&format!("  {v} AT {a} : {};\n", s.name()));
                if area == 'I' {
                    self.inputs.push((a, s));
                    env.ro(&v, s);
                } else {
                    env.rw(&v, s);
                }
                self.stats.io_bindings += 1;
            }
            text.push_str(&format!("VAR\n{d}END_VAR\n"));
        }
        // constants and temps
        if self.r.chance(1, 3) {
            let v = self.ident("k");
            let s = self.scalar();
            text.push_str(&format!("VAR CONSTANT\n  {v} : {} := {};\nEND_VAR\n", s.name(), lit_text(s, &mut self.r)));
            env.ro(&v, s);
        }
        if self.r.chance(1, 3) {
            let v = self.ident("tmp");
            let s = self.scalar();
            text.push_str(&format!("VAR_TEMP\n  {v} : {};\nEND_VAR\n", s.name()));
            env.rw(&v, s);
        }
        let mut body = String::new();
        if self.stats.programs == 0 {
            // a RETAIN counter that changes in every execution, so that every cycle has a new
            // retain image to persist
            let rc = self.ident("rc");
            text.push_str(&format!("VAR RETAIN\n  {rc} : DINT := DINT#0;\nEND_VAR\n"));
            body.push_str(&format!("{rc} := ({rc} MOD DINT#100000) + DINT#1;\n"));
            self.stats.retain_vars += 1;
        }
        self.bind_interfaces(&env, &mut body);
        let nb = 2 + self.r.pick(body_len + 1);
        self.block(&env, &mut body, 3, "", nb, &mut counters);
        text.push_str(&body);
        text.push_str("END_PROGRAM\n");
        self.stats.programs += 1;
        self.units.push((false, text));
        (name, fb_insts)
    }
}

fn add_std_outputs(env: &mut Env, inst: &str, kind: StdFb) {
    match kind {
        StdFb::Ton | StdFb::Tof | StdFb::Tp => {
            env.ro(&format!("{inst}.Q"), S::Bool);
            env.times_ro.push(format!("{inst}.ET"));
        }
        StdFb::Ctu | StdFb::Ctd => {
            env.ro(&format!("{inst}.Q"), S::Bool);
        }
        StdFb::RTrig | StdFb::FTrig => env.ro(&format!("{inst}.Q"), S::Bool),
        StdFb::Sr | StdFb::Rs => env.ro(&format!("{inst}.Q1"), S::Bool),
    }
}

fn time_lit(ns: i64) -> String {
    if ns % 1_000_000 == 0 {
        format!("T#{}ms", ns / 1_000_000)
    } else if ns % 1_000 == 0 {
        format!("T#{}us", ns / 1_000)
    } else {
        format!("T#{}ns", ns)
    }
}

fn gen_value(s: S, r: &mut Reader) -> Lit {
    match s {
        S::Bool => Lit::Bool(r.flag()),
        S::Int => Lit::Int([0i16, 1, -1, 7, 100, -300, 32767, -32768][r.pick(8)]),
        S::DInt => Lit::DInt([0i32, 1, -1, 42, 70000, -70000, i32::MAX, i32::MIN][r.pick(8)]),
        S::LInt => Lit::LInt([0i64, 1, -1, 1 << 40, -(1 << 40), i64::MAX][r.pick(6)]),
        S::UInt => Lit::UInt([0u16, 1, 9, 255, 1000, 65535][r.pick(6)]),
        S::Real => Lit::Real([0.0f32, 1.0, -1.5, 1.0e6, 3.25, f32::MIN_POSITIVE][r.pick(6)].to_bits()),
        S::LReal => Lit::LReal([0.0f64, 1.0, -2.5, 1.0e12, 0.1, 1.0e-300][r.pick(6)].to_bits()),
    }
}

pub fn generate(t: &Tapes) -> Generated {
    let mut g = Gen {
        r: Reader::new(&t.head),
        next_id: 0,
        types: Vec::new(),
        funcs: Vec::new(),
        itfs: Vec::new(),
        classlikes: Vec::new(),
        globals: Vec::new(),
        stats: GenStats::default(),
        units: Vec::new(),
        in_bytes: 0,
        out_bytes: 0,
        mem_bytes: 0,
        inputs: Vec::new(),
        has_config: false,
        multi_file: false,
        retain_interval: None,
    };
    let body_len = 2 + g.r.pick(5);
    g.has_config = g.r.chance(5, 6);
    let mut files_wanted = 1 + g.r.weighted(&[3, 3, 2, 2]);
    g.multi_file = files_wanted > 1;
    let n_ns = g.r.pick(4);
    let mut ns = Vec::new();
    for _ in 0..n_ns {
        ns.push(g.ident("Ns"));
    }
    g.stats.namespaces = n_ns;
    // retain store for the trace: none | store without interval | interval 0 | 1 ms | 10 s |
    // 500 ms (rare: its slow replay costs 1.8 s of real time)
    let retain: Option<(Option<i64>, bool)> = match g.r.weighted(&[9, 2, 5, 12, 2, 1]) {
        0 => None,
        1 => Some((None, false)),
        2 => Some((Some(0), false)),
        3 => Some((Some(1_000_000), false)),
        4 => Some((Some(10_000_000_000), false)),
        _ => Some((Some(500_000_000), false)),
    };
    let retain = retain.map(|(i, _)| (i, g.r.chance(1, 4)));
    g.retain_interval = retain.and_then(|(i, _)| i).filter(|i| *i > 0 && *i <= 1_000_000_000);
    // size plan (size- and count-triggered code paths): total bytes of source text around the
    // thresholds 4 / 16 / 64 / 256 KiB / 1 MiB and file counts 1 / 2 / 8 / 32 / 100; the padding is
    // comment text. 0 = as generated.
    const KIB: usize = 1024;
    let plan = g.r.weighted(&[240, 4, 4, 12, 2, 1]);
    let (size_target, count_target, one_big): (usize, usize, bool) = match plan {
        0 => (0, 0, false),
        1 => ([4 * KIB - 7, 4 * KIB, 4 * KIB + 9][g.r.pick(3)], [1, 2, 8][g.r.pick(3)], g.r.flag()),
        2 => ([16 * KIB - 1, 16 * KIB, 16 * KIB + 100][g.r.pick(3)], [1, 2, 8, 32][g.r.pick(4)], g.r.flag()),
        // the LARGE class: 3-10 files, 64-300 KiB
        3 => ([64 * KIB - 1, 64 * KIB, 64 * KIB + 1, 100 * KIB, 200 * KIB, 300 * KIB][g.r.pick(6)], 3 + g.r.pick(8), g.r.chance(1, 3)),
        4 => ([256 * KIB - 1, 256 * KIB + 1, 260 * KIB][g.r.pick(3)], [2, 8, 32][g.r.pick(3)], g.r.flag()),
        _ => ([KIB * KIB - 1, KIB * KIB + 1][g.r.pick(2)], [2, 2, 8, 100][g.r.pick(4)], g.r.flag()),
    };
    if count_target > 0 {
        files_wanted = count_target;
        g.multi_file = files_wanted > 1;
    }
    for tp in &t.types {
        g.r = Reader::new(tp);
        g.gen_type(&ns);
    }
    if g.has_config {
        for tp in &t.globals {
            g.r = Reader::new(tp);
            g.gen_global();
        }
    }
    for tp in &t.funcs {
        g.r = Reader::new(tp);
        g.gen_function(&ns, body_len);
    }
    for tp in &t.itfs {
        g.r = Reader::new(tp);
        g.gen_interface(&ns);
    }
    for tp in &t.classlikes {
        g.r = Reader::new(tp);
        g.gen_classlike(&ns, body_len);
    }
    let mut progs = Vec::new();
    for tp in &t.programs {
        g.r = Reader::new(tp);
        progs.push(g.gen_program(body_len));
    }
    g.r = Reader::new(&t.config);
    // configuration
    let mut task_intervals: Vec<i64> = Vec::new();
    if g.has_config {
        let mut text = String::from("CONFIGURATION ");
        text.push_str(&g.ident("Cfg"));
        text.push('\n');
        let resource = g.r.chance(1, 3);
        if resource {
            let rn = g.ident("Res");
            text.push_str(&format!("RESOURCE {rn} ON PLC\n"));
        }
        // SINGLE triggers
        let n_tasks = g.r.pick(6);
        let mut triggers = Vec::new();
        let n_trig = if n_tasks > 0 { g.r.pick(3) } else { 0 };
        for _ in 0..n_trig {
            let name = g.ident("trig");
            triggers.push(name.clone());
            g.globals.push(Global { name, ty: S::Bool, at: None, retain: false, constant: false, init: Some("FALSE".into()), settable: true });
            g.stats.globals += 1;
        }
        let plain: Vec<&Global> = g.globals.iter().filter(|x| !x.retain && !x.constant).collect();
        if !plain.is_empty() {
            text.push_str("VAR_GLOBAL\n");
            for x in plain {
                let at = x.at.as_ref().map(|a| format!(" AT {a}")).unwrap_or_default();
                let init = x.init.as_ref().map(|i| format!(" := {i}")).unwrap_or_default();
                text.push_str(&format!("  {}{at} : {}{init};\n", x.name, x.ty.name()));
            }
            text.push_str("END_VAR\n");
        }
        let ret: Vec<&Global> = g.globals.iter().filter(|x| x.retain).collect();
        if !ret.is_empty() {
            text.push_str("VAR_GLOBAL RETAIN\n");
            for x in ret {
                text.push_str(&format!("  {} : {} := {};\n", x.name, x.ty.name(), x.init.clone().unwrap_or_default()));
            }
            text.push_str("END_VAR\n");
        }
        let cons: Vec<&Global> = g.globals.iter().filter(|x| x.constant).collect();
        if !cons.is_empty() {
            text.push_str("VAR_GLOBAL CONSTANT\n");
            for x in cons {
                text.push_str(&format!("  {} : {} := {};\n", x.name, x.ty.name(), x.init.clone().unwrap_or_default()));
            }
            text.push_str("END_VAR\n");
        }
        let mut tasks = Vec::new();
        for _ in 0..n_tasks {
            let name = g.ident("Tsk");
            let interval = [10_000_000i64, 20_000_000, 5_000_000, 100_000_000, 1_000_000, 7_000_000][g.r.pick(6)];
            let prio = g.r.pick(4);
            let mut parts = Vec::new();
            let use_single = !triggers.is_empty() && g.r.chance(1, 3);
            if use_single {
                parts.push(format!("SINGLE := {}", triggers[g.r.pick(triggers.len())]));
            }
            if !use_single || g.r.flag() {
                parts.push(format!("INTERVAL := {}", time_lit(interval)));
                task_intervals.push(interval);
            }
            parts.push(format!("PRIORITY := {prio}"));
            text.push_str(&format!("TASK {name} ({});\n", parts.join(", ")));
            tasks.push(name);
            g.stats.tasks += 1;
        }
        for (ptype, fb_insts) in &progs {
            let inst = g.ident("P");
            let mut line = format!("PROGRAM {inst}");
            if !tasks.is_empty() && g.r.chance(3, 4) {
                line.push_str(&format!(" WITH {}", tasks[g.r.pick(tasks.len())]));
            } else {
                g.stats.background += 1;
            }
            line.push_str(&format!(" : {ptype}"));
            if !tasks.is_empty() && !fb_insts.is_empty() && g.r.chance(1, 4) {
                let fb = &fb_insts[g.r.pick(fb_insts.len())];
                line.push_str(&format!(" ({fb} WITH {})", tasks[g.r.pick(tasks.len())]));
            }
            line.push_str(";\n");
            text.push_str(&line);
        }
        if resource {
            text.push_str("END_RESOURCE\n");
        }
        text.push_str("END_CONFIGURATION\n");
        g.units.push((false, text));
    }
    g.stats.configuration = g.has_config;
    if !g.has_config {
        g.stats.background = progs.len();
    }

    g.r = Reader::new(&t.layout);
    // distribute the units over files: type units keep their relative order and come
    // first in processing order; the other units are rotated/reversed by the tape.
    let mut type_units: Vec<String> = Vec::new();
    let mut other_units: Vec<String> = Vec::new();
    for (is_type, t) in std::mem::take(&mut g.units) {
        if is_type {
            type_units.push(t);
        } else {
            other_units.push(t);
        }
    }
    match g.r.pick(3) {
        0 => {}
        1 => other_units.reverse(),
        _ => {
            if !other_units.is_empty() {
                let k = g.r.pick(other_units.len());
                other_units.rotate_left(k);
            }
        }
    }
    let mut all = type_units;
    all.extend(other_units);
    // a size plan with more files than units: tiny real POUs fill the gap, so that every file
    // has content of its own
    let mut pad_fn = 0;
    while size_target > 0 && all.len() < files_wanted {
        all.push(format!("FUNCTION PadFn{pad_fn} : DINT\nPadFn{pad_fn} := DINT#{pad_fn};\nEND_FUNCTION\n"));
        pad_fn += 1;
    }
    let n_files = files_wanted.min(all.len().max(1));
    let mut cuts: Vec<usize> = Vec::new();
    for f in 1..n_files {
        if size_target > 0 {
            cuts.push(f * all.len() / n_files);
        } else {
            cuts.push(g.r.pick(all.len() + 1));
        }
    }
    cuts.sort();
    let with_paths = g.r.weighted(&[2, 2, 1, 3]); // 0 none, 1 all relative, 2 mixed, 3 all absolute
    g.stats.path_mode = with_paths;
    let mut files = Vec::new();
    let mut start = 0;
    for f in 0..n_files {
        let end = if f + 1 == n_files { all.len() } else { cuts[f] };
        let text = all[start..end.max(start)].join("\n");
        start = end.max(start);
        let path = match with_paths {
            0 => None,
            1 => Some(format!("src/{}{f}.st", STEMS[g.r.pick(STEMS.len())])),
            // absolute: `<per-batch scratch dir>/src/uNNN_<stem>.st`; the number keeps the sorted
            // order of the files on disk equal to the order of the project
            3 => Some(format!("{ABS_PREFIX}/src/u{f:03}_{}.st", STEMS[g.r.pick(STEMS.len())])),
            _ => {
                if f % 2 == 0 {
                    Some(format!("lib/unit{f}.st"))
                } else {
                    None
                }
            }
        };
        files.push(SrcFile { path, text, pad: 0 });
    }
    // comment padding up to the size target: equal-sized files, or one big file and small ones;
    // a padded file grows by pad + 1 bytes (see `expand`)
    if size_target > 0 {
        let n = files.len();
        let text_total: usize = files.iter().map(|f| f.text.len()).sum();
        if size_target > text_total + n {
            if one_big || n == 1 {
                let k = if n == 1 { 0 } else { g.r.pick(n) };
                files[k].pad = (size_target - text_total - 1) as u32;
            } else {
                let each = size_target / n;
                for f in files.iter_mut() {
                    f.pad = each.saturating_sub(f.text.len() + 1) as u32;
                }
                // the last padded file takes the remainder, so that the total is exact
                let actual: usize = files.iter().map(|f| f.text.len() + if f.pad > 0 { f.pad as usize + 1 } else { 0 }).sum();
                if let Some(f) = files.iter_mut().rev().find(|f| f.pad > 0) {
                    if size_target >= actual {
                        f.pad += (size_target - actual) as u32;
                    } else {
                        f.pad = f.pad.saturating_sub((actual - size_target) as u32).max(1);
                    }
                }
            }
        }
    }
    g.stats.total_bytes = files.iter().map(|f| f.text.len() + if f.pad > 0 { f.pad as usize + 1 } else { 0 }).sum();
    g.stats.files = files.len();

    // trace
    let settable: Vec<(String, S)> = g.globals.iter().filter(|x| x.settable).map(|x| (x.name.clone(), x.ty)).collect();
    let mut trace = Vec::new();
    for tp in &t.steps {
        g.r = Reader::new(tp);
        let dt = match g.r.weighted(&[1, 3, 3, 2, 1, if g.retain_interval.is_some() { 12 } else { 0 }]) {
            5 => {
                // steps around the retain save interval: every cycle (or every other one) is
                // a save point in simulated time
                let i = g.retain_interval.unwrap_or(1_000_000);
                [i, i, 2 * i, i + i / 2, i / 2, i + 1][g.r.pick(6)]
            }
            0 => 0,
            1 => [1_000_000i64, 5_000_000, 10_000_000, 20_000_000][g.r.pick(4)],
            2 => {
                if task_intervals.is_empty() {
                    10_000_000
                } else {
                    task_intervals[g.r.pick(task_intervals.len())]
                }
            }
            3 => {
                let base = if task_intervals.is_empty() { 10_000_000 } else { task_intervals[g.r.pick(task_intervals.len())] };
                base * (2 + g.r.pick(4) as i64) + [0i64, 1, 999][g.r.pick(3)]
            }
            _ => [1i64, 1_000_000_000, 3_600_000_000_000][g.r.pick(3)],
        };
        let mut writes = Vec::new();
        let inputs = g.inputs.clone();
        for (addr, s) in &inputs {
            if g.r.chance(1, 2) {
                writes.push(Write::Direct { addr: addr.clone(), val: gen_value(*s, &mut g.r) });
            }
        }
        for (name, s) in &settable {
            if g.r.chance(1, 3) {
                writes.push(Write::Global { name: name.clone(), val: gen_value(*s, &mut g.r) });
            }
        }
        trace.push(Step { dt_ns: dt, writes });
    }
    // build history for projects on disk (absolute paths): half of them
    g.r = Reader::new(&t.hist);
    let history = if with_paths == 3 && g.r.chance(1, 2) {
        let nf = files.len();
        let mt = |r: &mut Reader| [MTime::Now, MTime::Older, MTime::Newer, MTime::EqualArtefact, MTime::Older][r.pick(5)];
        let n_steps = 1 + g.r.pick(3); // builds BEFORE the final one
        let mut steps = Vec::new();
        for si in 0..n_steps {
            let mut ops = Vec::new();
            if si == 0 {
                // initial population: every file (final or alternative text), 0-2 extra files
                for f in 0..nf {
                    let alt = g.r.chance(1, 3);
                    let m = mt(&mut g.r);
                    ops.push(FileOp::Write { file: f, alt, mtime: m });
                }
                for k in 0..g.r.pick(3) as u8 {
                    let m = mt(&mut g.r);
                    ops.push(FileOp::WriteExtra { k, mtime: m });
                }
            } else {
                for _ in 0..1 + g.r.pick(3) {
                    let f = g.r.pick(nf);
                    let op = match g.r.pick(6) {
                        0 => FileOp::Write { file: f, alt: g.r.flag(), mtime: mt(&mut g.r) },
                        1 => FileOp::WriteExtra { k: g.r.pick(3) as u8, mtime: mt(&mut g.r) },
                        2 => FileOp::DeleteExtra { k: g.r.pick(3) as u8 },
                        3 => FileOp::Delete { file: f },
                        4 => FileOp::SetMtime { file: f, mtime: mt(&mut g.r) },
                        _ => FileOp::TouchArtefact { mtime: mt(&mut g.r) },
                    };
                    ops.push(op);
                }
            }
            steps.push(HistStep { ops });
        }
        // the last step only says HOW the final state is reached (the child completes it: every
        // project file gets its final text if it has not got it, extras are deleted)
        let mut ops = Vec::new();
        let m = mt(&mut g.r);
        ops.push(FileOp::SetMtime { file: 0, mtime: m });
        if g.r.flag() {
            ops.push(FileOp::TouchArtefact { mtime: mt(&mut g.r) });
        }
        steps.push(HistStep { ops });
        Some(BuildHistory { steps })
    } else {
        None
    };
    Generated { files, trace, stats: g.stats, retain, history }
}
