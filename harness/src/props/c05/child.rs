//! Child-process side of C05 (`tpv c05-worker <job-file>`): compile every case twice,
//! run its trace twice with a DebugControl attached, print digests (and, in `full` mode,
//! the artefacts themselves as text lines) as JSON on stdout.

use std::collections::BTreeMap;

use serde::{Deserialize, Serialize};
use trust_runtime::debug::RuntimeEvent;
use trust_runtime::harness::{CompileSession, SourceFile};
use trust_runtime::io::IoAddress;
use trust_runtime::memory::{InstanceId, MemoryLocation, VariableStorage};
use trust_runtime::value::{Duration, RefSegment, Value, ValueRef};
use trust_runtime::Runtime;

use super::gen::{expand, BuildHistory, FileOp, Lit, MTime, SrcFile, Step, Write};
use crate::engine::{catch, sha_hex};

#[derive(Clone, Debug, Serialize, Deserialize)]
pub struct ChildCase {
    pub files: Vec<SrcFile>,
    pub trace: Vec<Step>,
    /// retain store to attach for the trace (None = no store)
    #[serde(default)]
    pub retain: Option<RetainCfg>,
    /// directory whose `src/` holds the files on disk (projects with absolute source paths):
    /// `bundle_builder::build_program_stbc` is run on it as one more compile entry point
    #[serde(default)]
    pub bundle_sources: Option<String>,
    /// successive builds in one bundle root (projects on disk only)
    #[serde(default)]
    pub history: Option<BuildHistory>,
}

/// A retain store attached to the runtime while the trace runs.
#[derive(Clone, Debug, Serialize, Deserialize, PartialEq)]
pub struct RetainCfg {
    /// save interval in SIMULATED nanoseconds; None = store configured without an interval
    pub interval_ns: Option<i64>,
    /// FileRetainStore in the child's scratch directory instead of the logging in-memory store
    pub file: bool,
}

#[derive(Clone, Debug, Serialize, Deserialize)]
pub struct Job {
    pub cases: Vec<ChildCase>,
    /// also return the artefacts as text (for the diff of a failing case)
    pub full: bool,
    /// pre-amble: threads to pre-spawn and allocations to make before any work
    pub threads: usize,
    pub allocs: usize,
    /// wall-clock pause between the two repetitions of a case (moves the second repetition
    /// into another second, so a wall-clock stamp of second granularity shows)
    #[serde(default)]
    pub pause_ms: u64,
    /// the first repetition compiles through `CompileSession::build_bytecode_bytes` (the
    /// public entry point) instead of build_runtime + BytecodeModule::from_runtime...
    #[serde(default)]
    pub public_api: bool,
    /// order in which this child processes the cases of the batch (indices into `cases`);
    /// empty = as listed. Results are returned in the order of `cases`.
    #[serde(default)]
    pub order: Vec<usize>,
    /// run every case on a thread of its own (fresh thread-locals) instead of all cases one
    /// after the other on one thread
    #[serde(default)]
    pub separate_threads: bool,
    /// replay the traces of projects with a retain store with a REAL delay between the cycles
    /// (input, not oracle): 3 ms per cycle for the 1 ms save interval (both repetitions),
    /// 600 ms for the first three cycles of the second repetition for the 500 ms interval
    #[serde(default)]
    pub cycle_delays: bool,
    /// child-private scratch directory (retain files, bundle output)
    #[serde(default)]
    pub scratch: String,
}

/// One repetition (compile + run) of one case in one process.
#[derive(Clone, Debug, Default, Serialize, Deserialize, PartialEq)]
pub struct Rep {
    /// SHA-256 of the STBC bytes, or "ERR"/"PANIC:..." when there is no container
    pub stbc: String,
    pub stbc_len: usize,
    /// (section id, SHA-256 of the section payload) from the container's section table
    pub sections: Vec<(u16, String)>,
    /// SHA-256 of the state dump after every cycle
    pub cycles: Vec<String>,
    pub faults: String,
    pub events: String,
    pub pous: usize,
    pub strings: usize,
    pub fault_count: usize,
    pub event_count: usize,
    /// SHA-256 of the state a FRESH runtime has after loading the retain store the trace left
    /// behind (no final save) - "" when the case has no store
    #[serde(default)]
    pub restored: String,
    /// number of images the logging store received
    #[serde(default)]
    pub stores: usize,
    /// SHA-256 of the program.stbc `bundle_builder::build_program_stbc` wrote ("" = not run)
    #[serde(default)]
    pub bundle: String,
    /// build history: SHA-256 of program.stbc after the last build of the history, of a single
    /// build of the same final sources into a fresh bundle root, and of the history result without
    /// its DEBUG_STRING_TABLE (the only section that carries the child-specific directory)
    #[serde(default)]
    pub hist: String,
    #[serde(default)]
    pub hist_fresh: String,
    #[serde(default)]
    pub hist_nodebug: String,
    /// `full` mode only: the artefacts as text
    #[serde(default)]
    pub full: Option<Full>,
}

#[derive(Clone, Debug, Default, Serialize, Deserialize, PartialEq)]
pub struct Full {
    pub compile_error: String,
    /// section id -> pretty-printed decoded section (lines)
    pub sections: BTreeMap<u16, Vec<String>>,
    pub cycles: Vec<Vec<String>>,
    pub faults: Vec<String>,
    pub events: Vec<String>,
    #[serde(default)]
    pub restored: Vec<String>,
    #[serde(default)]
    pub bundle_error: String,
    #[serde(default)]
    pub hist_log: Vec<String>,
}

#[derive(Clone, Debug, Serialize, Deserialize)]
pub struct CaseResult {
    pub reps: Vec<Rep>,
}

fn to_value(l: &Lit) -> Value {
    match l {
        Lit::Bool(b) => Value::Bool(*b),
        Lit::Int(v) => Value::Int(*v),
        Lit::DInt(v) => Value::DInt(*v),
        Lit::LInt(v) => Value::LInt(*v),
        Lit::UInt(v) => Value::UInt(*v),
        Lit::Real(b) => Value::Real(f32::from_bits(*b)),
        Lit::LReal(b) => Value::LReal(f64::from_bits(*b)),
    }
}

/// Direct addresses take the raw bit-string value of their size (IoInterface::write).
fn to_io_value(l: &Lit) -> Value {
    match l {
        Lit::Bool(b) => Value::Bool(*b),
        Lit::Int(v) => Value::Word(*v as u16),
        Lit::UInt(v) => Value::Word(*v),
        Lit::DInt(v) => Value::DWord(*v as u32),
        Lit::Real(b) => Value::DWord(*b),
        Lit::LInt(v) => Value::LWord(*v as u64),
        Lit::LReal(b) => Value::LWord(*b),
    }
}

fn sources(case: &ChildCase) -> Vec<SourceFile> {
    case.files
        .iter()
        .map(|f| match &f.path {
            Some(p) => SourceFile::with_path(p.clone(), f.text.clone()),
            None => SourceFile::new(f.text.clone()),
        })
        .collect()
}

/// Section table of a container: (id, payload bytes). Header: magic 4, major 2, minor 2,
/// flags 4, header_size 2, section_count 2, table_off 4, checksum 4; entry: id 2, flags 2,
/// offset 4, length 4.
fn section_slices(bytes: &[u8]) -> Vec<(u16, &[u8])> {
    let mut out = Vec::new();
    if bytes.len() < 24 {
        return out;
    }
    let count = u16::from_le_bytes([bytes[14], bytes[15]]) as usize;
    let table = u32::from_le_bytes([bytes[16], bytes[17], bytes[18], bytes[19]]) as usize;
    for i in 0..count {
        let e = table + i * 12;
        if e + 12 > bytes.len() {
            break;
        }
        let id = u16::from_le_bytes([bytes[e], bytes[e + 1]]);
        let off = u32::from_le_bytes([bytes[e + 4], bytes[e + 5], bytes[e + 6], bytes[e + 7]]) as usize;
        let len = u32::from_le_bytes([bytes[e + 8], bytes[e + 9], bytes[e + 10], bytes[e + 11]]) as usize;
        if off + len <= bytes.len() {
            out.push((id, &bytes[off..off + len]));
        }
    }
    out
}

// ----------------------------------------------------------------------- retain stores

#[derive(Default)]
struct MemInner {
    image: Option<trust_runtime::RetainSnapshot>,
    stores: usize,
}

/// In-memory retain store that counts what it receives.
#[derive(Clone, Default)]
struct MemStore {
    inner: std::sync::Arc<std::sync::Mutex<MemInner>>,
}

impl trust_runtime::retain::RetainStore for MemStore {
    fn load(&self) -> Result<trust_runtime::RetainSnapshot, trust_runtime::error::RuntimeError> {
        Ok(self.inner.lock().map(|g| g.image.clone().unwrap_or_default()).unwrap_or_default())
    }
    fn store(&self, snapshot: &trust_runtime::RetainSnapshot) -> Result<(), trust_runtime::error::RuntimeError> {
        if let Ok(mut g) = self.inner.lock() {
            g.image = Some(snapshot.clone());
            g.stores += 1;
        }
        Ok(())
    }
}

fn plain_lines(path: &str, v: &Value, out: &mut Vec<String>) {
    match v {
        Value::Real(f) => out.push(format!("{path} = Real(0x{:08x})", f.to_bits())),
        Value::LReal(f) => out.push(format!("{path} = LReal(0x{:016x})", f.to_bits())),
        Value::Array(a) => {
            out.push(format!("{path} = Array{:?}", a.dimensions));
            for (i, e) in a.elements.iter().enumerate() {
                plain_lines(&format!("{path}[{i}]"), e, out);
            }
        }
        Value::Struct(s) => {
            out.push(format!("{path} = Struct({})", s.type_name));
            let mut f: Vec<(&str, &Value)> = s.fields.iter().map(|(k, v)| (k.as_str(), v)).collect();
            f.sort_by(|a, b| a.0.cmp(b.0));
            for (n, e) in f {
                plain_lines(&format!("{path}.{n}"), e, out);
            }
        }
        other => out.push(format!("{path} = {other:?}")),
    }
}

fn snapshot_digest(s: &trust_runtime::RetainSnapshot) -> String {
    let mut items: Vec<(&str, &Value)> = s.values().iter().map(|(k, v)| (k.as_str(), v)).collect();
    items.sort_by(|a, b| a.0.cmp(b.0));
    let mut lines = Vec::new();
    for (k, v) in items {
        plain_lines(k, v, &mut lines);
    }
    sha_hex(lines.join("\n").as_bytes())
}

enum Attached {
    Mem(MemStore),
    File(std::path::PathBuf),
}

impl Attached {
    fn boxed(&self) -> Box<dyn trust_runtime::retain::RetainStore> {
        match self {
            Attached::Mem(m) => Box::new(m.clone()),
            Attached::File(p) => Box::new(trust_runtime::retain::FileRetainStore::new(p.clone())),
        }
    }
    /// What the backing medium holds right now.
    fn observe(&self) -> String {
        match self {
            Attached::Mem(m) => match m.inner.lock() {
                Ok(g) => format!("retain.store: stores={} image={}", g.stores, g.image.as_ref().map(snapshot_digest).unwrap_or_else(|| "none".into())),
                Err(_) => "retain.store: poisoned".into(),
            },
            Attached::File(p) => match std::fs::read(p) {
                Ok(b) => format!("retain.file: {} bytes sha={}", b.len(), sha_hex(&b)),
                Err(_) => "retain.file: absent".into(),
            },
        }
    }
}

static RETAIN_FILE_SEQ: std::sync::atomic::AtomicUsize = std::sync::atomic::AtomicUsize::new(0);

// ------------------------------------------------------------------------------- dump

struct Dumper<'a> {
    storage: &'a VariableStorage,
    /// instance id -> canonical path (first path reached walking the sorted globals)
    canon: BTreeMap<u32, String>,
    lines: Vec<String>,
}

impl<'a> Dumper<'a> {
    fn name_instances(&mut self) {
        let mut globals: Vec<(&str, &Value)> = self.storage.globals().iter().map(|(k, v)| (k.as_str(), v)).collect();
        globals.sort_by(|a, b| a.0.cmp(b.0));
        for (name, v) in globals {
            self.name_value(name, v, 0);
        }
        let mut retain: Vec<(&str, &Value)> = self.storage.retain().iter().map(|(k, v)| (k.as_str(), v)).collect();
        retain.sort_by(|a, b| a.0.cmp(b.0));
        for (name, v) in retain {
            self.name_value(&format!("retain:{name}"), v, 0);
        }
        // instances no path leads to: numbered by rank of their raw id
        let mut rest: Vec<u32> = self.storage.instances().keys().map(|k| k.0).filter(|k| !self.canon.contains_key(k)).collect();
        rest.sort();
        for (rank, id) in rest.into_iter().enumerate() {
            if self.canon.contains_key(&id) {
                continue;
            }
            let path = format!("orphan#{rank}");
            self.name_instance(&path, InstanceId(id), 0);
        }
    }

    fn name_instance(&mut self, path: &str, id: InstanceId, depth: u32) {
        if depth > 64 || self.canon.contains_key(&id.0) {
            return;
        }
        self.canon.insert(id.0, path.to_string());
        let Some(data) = self.storage.get_instance(id) else {
            return;
        };
        let mut vars: Vec<(&str, &Value)> = data.variables.iter().map(|(k, v)| (k.as_str(), v)).collect();
        vars.sort_by(|a, b| a.0.cmp(b.0));
        for (n, v) in vars {
            self.name_value(&format!("{path}.{n}"), v, depth + 1);
        }
        if let Some(parent) = data.parent {
            self.name_instance(&format!("{path}.^parent"), parent, depth + 1);
        }
    }

    fn name_value(&mut self, path: &str, v: &Value, depth: u32) {
        match v {
            Value::Instance(id) => self.name_instance(path, *id, depth),
            Value::Array(a) => {
                for (i, e) in a.elements.iter().enumerate() {
                    if matches!(e, Value::Instance(_) | Value::Struct(_) | Value::Array(_)) {
                        self.name_value(&format!("{path}[{i}]"), e, depth + 1);
                    }
                }
            }
            Value::Struct(s) => {
                let mut f: Vec<(&str, &Value)> = s.fields.iter().map(|(k, v)| (k.as_str(), v)).collect();
                f.sort_by(|a, b| a.0.cmp(b.0));
                for (n, e) in f {
                    if matches!(e, Value::Instance(_) | Value::Struct(_) | Value::Array(_)) {
                        self.name_value(&format!("{path}.{n}"), e, depth + 1);
                    }
                }
            }
            _ => {}
        }
    }

    fn inst_name(&self, id: InstanceId) -> String {
        match self.canon.get(&id.0) {
            Some(p) => format!("@{p}"),
            None => "@dangling".to_string(),
        }
    }

    fn fmt_ref(&self, r: &ValueRef) -> String {
        let loc = match r.location {
            MemoryLocation::Global => "global".to_string(),
            MemoryLocation::Local(f) => format!("local({})", f.0),
            MemoryLocation::Instance(id) => format!("instance({})", self.inst_name(id)),
            MemoryLocation::Io(a) => format!("io({a:?})"),
            MemoryLocation::Retain => "retain".to_string(),
        };
        let mut s = format!("{loc}+{}", r.offset);
        for seg in &r.path {
            match seg {
                RefSegment::Index(ix) => s.push_str(&format!("{ix:?}")),
                RefSegment::Field(f) => s.push_str(&format!(".{f}")),
            }
        }
        s
    }

    /// Emit `path = value` lines (composite values are expanded, floats bitwise,
    /// instance ids replaced by canonical paths).
    fn emit(&mut self, path: &str, v: &Value) {
        match v {
            Value::Real(f) => self.lines.push(format!("{path} = Real(0x{:08x})", f.to_bits())),
            Value::LReal(f) => self.lines.push(format!("{path} = LReal(0x{:016x})", f.to_bits())),
            Value::Instance(id) => {
                let n = self.inst_name(*id);
                self.lines.push(format!("{path} = Instance({n})"));
            }
            Value::Reference(Some(r)) => {
                let t = self.fmt_ref(r);
                self.lines.push(format!("{path} = Reference({t})"));
            }
            Value::Array(a) => {
                self.lines.push(format!("{path} = Array{:?}", a.dimensions));
                for (i, e) in a.elements.iter().enumerate() {
                    self.emit(&format!("{path}[{i}]"), e);
                }
            }
            Value::Struct(s) => {
                self.lines.push(format!("{path} = Struct({})", s.type_name));
                let mut f: Vec<(&str, &Value)> = s.fields.iter().map(|(k, v)| (k.as_str(), v)).collect();
                f.sort_by(|a, b| a.0.cmp(b.0));
                for (n, e) in f {
                    self.emit(&format!("{path}.{n}"), e);
                }
            }
            other => self.lines.push(format!("{path} = {other:?}")),
        }
    }

    fn emit_instances(&mut self) {
        // by canonical path
        let mut by_path: Vec<(String, u32)> = self.canon.iter().map(|(id, p)| (p.clone(), *id)).collect();
        by_path.sort();
        for (path, id) in by_path {
            let Some(data) = self.storage.get_instance(InstanceId(id)) else {
                self.lines.push(format!("@{path} : <missing>"));
                continue;
            };
            let parent = data.parent.map(|p| self.inst_name(p)).unwrap_or_else(|| "-".into());
            self.lines.push(format!("@{path} : {} parent={parent}", data.type_name));
            let mut vars: Vec<(&str, &Value)> = data.variables.iter().map(|(k, v)| (k.as_str(), v)).collect();
            vars.sort_by(|a, b| a.0.cmp(b.0));
            for (n, v) in vars {
                self.emit(&format!("@{path}.{n}"), v);
            }
        }
    }
}

fn dump_state(rt: &Runtime, cycle: usize, result: &Result<(), String>) -> Vec<String> {
    let storage = rt.storage();
    let mut d = Dumper { storage, canon: BTreeMap::new(), lines: Vec::new() };
    d.lines.push(format!("cycle {cycle} result={result:?}"));
    d.lines.push(format!("time = {}", rt.current_time().as_nanos()));
    d.lines.push(format!("faulted = {} last_fault = {:?}", rt.faulted(), rt.last_fault().map(|e| e.to_string())));
    d.name_instances();
    let mut globals: Vec<(&str, &Value)> = storage.globals().iter().map(|(k, v)| (k.as_str(), v)).collect();
    globals.sort_by(|a, b| a.0.cmp(b.0));
    for (n, v) in globals {
        d.emit(&format!("global:{n}"), v);
    }
    let mut retain: Vec<(&str, &Value)> = storage.retain().iter().map(|(k, v)| (k.as_str(), v)).collect();
    retain.sort_by(|a, b| a.0.cmp(b.0));
    for (n, v) in retain {
        d.emit(&format!("retain:{n}"), v);
    }
    d.emit_instances();
    d.lines.push(format!("frames = {}", storage.frames().len()));
    let io = rt.io();
    d.lines.push(format!("io.inputs = {}", hex(io.inputs())));
    d.lines.push(format!("io.outputs = {}", hex(io.outputs())));
    d.lines.push(format!("io.memory = {}", hex(io.memory())));
    let mut tasks: Vec<String> = rt
        .tasks()
        .iter()
        .map(|t| format!("task {} overruns={:?}", t.name, rt.task_overrun_count(t.name.as_ref())))
        .collect();
    tasks.sort();
    d.lines.extend(tasks);
    d.lines
}

fn hex(b: &[u8]) -> String {
    b.iter().map(|x| format!("{x:02x}")).collect()
}

fn fmt_event(e: &RuntimeEvent) -> String {
    // every `time` field is the simulation clock (Runtime::current_time), see
    // runtime/cycle.rs and runtime/core.rs apply_fault - no wall-clock value is carried
    format!("{e:?}")
}

fn set_mtime(path: &std::path::Path, t: std::time::SystemTime) {
    use std::os::unix::ffi::OsStrExt;
    let Ok(d) = t.duration_since(std::time::UNIX_EPOCH) else {
        return;
    };
    let ts = libc::timespec { tv_sec: d.as_secs() as libc::time_t, tv_nsec: d.subsec_nanos() as _ };
    let times = [ts, ts];
    if let Ok(c) = std::ffi::CString::new(path.as_os_str().as_bytes()) {
        // SAFETY: valid NUL-terminated path and a two-element timespec array
        unsafe {
            libc::utimensat(libc::AT_FDCWD, c.as_ptr(), times.as_ptr(), 0);
        }
    }
}

fn apply_mtime(path: &std::path::Path, m: MTime, artefact: &std::path::Path) {
    let now = std::time::SystemTime::now();
    match m {
        MTime::Now => {}
        MTime::Older => set_mtime(path, now - std::time::Duration::from_secs(1000)),
        MTime::Newer => set_mtime(path, now + std::time::Duration::from_secs(1000)),
        MTime::EqualArtefact => {
            if let Ok(t) = std::fs::metadata(artefact).and_then(|m| m.modified()) {
                set_mtime(path, t);
            }
        }
    }
}

fn nodebug_digest(bytes: &[u8]) -> String {
    let mut acc = String::new();
    for (id, payload) in section_slices(bytes) {
        if id != 0x000A {
            acc.push_str(&format!("{id}:{};", sha_hex(payload)));
        }
    }
    sha_hex(acc.as_bytes())
}

/// Successive builds in one bundle root. The state before the last build is exactly the
/// project's files; returns (digest after the history, digest of a fresh build, digest without
/// debug strings, log).
fn run_history(case: &ChildCase, h: &BuildHistory, scratch: &str) -> (String, String, String, Vec<String>) {
    use trust_runtime::bundle_builder::build_program_stbc;
    let mut log = Vec::new();
    let root = std::path::Path::new(scratch).join("hist");
    let _ = std::fs::remove_dir_all(&root);
    let src = root.join("src");
    let _ = std::fs::create_dir_all(&src);
    let artefact = root.join("program.stbc");
    let name = |i: usize| -> std::path::PathBuf {
        let base = case.files.get(i).and_then(|f| f.path.as_deref()).and_then(|p| p.rsplit('/').next()).unwrap_or("f.st").to_string();
        src.join(base)
    };
    let extra = |k: u8| src.join(format!("zz_extra_{k}.st"));
    let alt_text = |i: usize| format!("{}\nFUNCTION AltFn{i} : DINT\nAltFn{i} := DINT#{i};\nEND_FUNCTION\n", case.files[i].text);
    let n = case.files.len();
    let mut last_ok = false;
    for (si, step) in h.steps.iter().enumerate() {
        let last = si + 1 == h.steps.len();
        let mut policy = MTime::Now;
        for op in &step.ops {
            match op {
                FileOp::Write { file, alt, mtime } if !last && *file < n => {
                    let p = name(*file);
                    let _ = std::fs::write(&p, if *alt { alt_text(*file) } else { case.files[*file].text.clone() });
                    apply_mtime(&p, *mtime, &artefact);
                    log.push(format!("step {si}: write #{file} alt={alt} mtime={mtime:?}"));
                }
                FileOp::WriteExtra { k, mtime } if !last => {
                    let p = extra(*k);
                    let _ = std::fs::write(&p, format!("FUNCTION ExtraFn{k} : DINT\nExtraFn{k} := DINT#{k};\nEND_FUNCTION\n"));
                    apply_mtime(&p, *mtime, &artefact);
                    log.push(format!("step {si}: write extra {k} mtime={mtime:?}"));
                }
                FileOp::DeleteExtra { k } if !last => {
                    let _ = std::fs::remove_file(extra(*k));
                    log.push(format!("step {si}: delete extra {k}"));
                }
                FileOp::Delete { file } if !last && *file < n => {
                    let _ = std::fs::remove_file(name(*file));
                    log.push(format!("step {si}: delete #{file}"));
                }
                FileOp::SetMtime { file, mtime } => {
                    if last {
                        policy = *mtime;
                    } else if *file < n {
                        apply_mtime(&name(*file), *mtime, &artefact);
                        log.push(format!("step {si}: mtime #{file} {mtime:?}"));
                    }
                }
                FileOp::TouchArtefact { mtime } => {
                    if artefact.exists() {
                        match mtime {
                            MTime::Now => set_mtime(&artefact, std::time::SystemTime::now()),
                            m => apply_mtime(&artefact, *m, &artefact),
                        }
                        log.push(format!("step {si}: touch artefact {mtime:?}"));
                    }
                }
                _ => {}
            }
        }
        if last {
            // complete the final state: every project file with its final text, no extras
            for i in 0..n {
                let p = name(i);
                let same = std::fs::read_to_string(&p).map(|t| t == case.files[i].text).unwrap_or(false);
                if !same {
                    let _ = std::fs::write(&p, &case.files[i].text);
                    apply_mtime(&p, policy, &artefact);
                    log.push(format!("step {si}: final text for #{i} mtime={policy:?}"));
                }
            }
            for k in 0..3u8 {
                if extra(k).exists() {
                    let _ = std::fs::remove_file(extra(k));
                    log.push(format!("step {si}: delete extra {k}"));
                }
            }
        }
        let r = build_program_stbc(&root, None);
        last_ok = r.is_ok();
        log.push(format!("step {si}: build -> {}", if r.is_ok() { "ok".to_string() } else { format!("error: {:#}", r.err().unwrap()).chars().take(120).collect() }));
    }
    let hist_bytes = std::fs::read(&artefact);
    let fresh_root = std::path::Path::new(scratch).join("hist-fresh");
    let _ = std::fs::remove_dir_all(&fresh_root);
    let _ = std::fs::create_dir_all(&fresh_root);
    let fresh = match build_program_stbc(&fresh_root, Some(&src)) {
        Ok(rep) => std::fs::read(&rep.program_path).map(|b| sha_hex(&b)).unwrap_or_else(|_| "ERR:read".into()),
        Err(_) => "ERR".into(),
    };
    let (hist, nodebug) = match hist_bytes {
        Ok(b) => (sha_hex(&b), nodebug_digest(&b)),
        Err(_) => ("ABSENT".to_string(), "ABSENT".to_string()),
    };
    // a final build that is rejected yields no container (whatever an earlier build left behind)
    if !last_ok {
        return ("ERR".to_string(), fresh, "ERR".to_string(), log);
    }
    (hist, fresh, nodebug, log)
}

fn run_rep(case: &ChildCase, full: bool, public_api: bool, rep_index: usize, ctx: &RunEnv) -> Rep {
    let mut rep = Rep::default();
    let mut fl = Full::default();
    // 1. compile to a container. With `public_api` (first repetition of the first child) the
    // bytes come from the public entry point `CompileSession::build_bytecode_bytes` (what
    // `bytecode_bytes_from_source(s)` calls) and the runtime for the trace is built
    // separately; otherwise the runtime is built once and encoded exactly as harness/build.rs
    // `build_bytecode_module_from_source_files` does (one compilation instead of two). All
    // observations must give the same bytes, so the two routes are cross-checked as well.
    let session = CompileSession::from_sources(sources(case));
    let mut runtime: Option<Result<Runtime, String>> = None;
    let compiled: Result<Vec<u8>, String> = if public_api {
        // every public entry point that fits the shape of the project
        let texts: Vec<&str> = case.files.iter().map(|f| f.text.as_str()).collect();
        let all_paths = case.files.iter().all(|f| f.path.is_some());
        let no_paths = case.files.iter().all(|f| f.path.is_none());
        let paths: Vec<&str> = case.files.iter().map(|f| f.path.as_deref().unwrap_or_default()).collect();
        use trust_runtime::harness as h;
        let r = if all_paths && texts.len() == 1 {
            h::bytecode_bytes_from_source_with_path(texts[0], paths[0])
        } else if all_paths {
            h::bytecode_bytes_from_sources_with_paths(&texts, &paths)
        } else if no_paths && texts.len() == 1 {
            h::bytecode_bytes_from_source(texts[0])
        } else if no_paths {
            h::bytecode_bytes_from_sources(&texts)
        } else {
            session.build_bytecode_bytes()
        };
        r.map_err(|e| e.to_string())
    } else {
        match session.build_runtime() {
            Ok(rt) => {
                let texts: Vec<&str> = case.files.iter().map(|f| f.text.as_str()).collect();
                let module = if case.files.iter().all(|f| f.path.is_some()) {
                    let paths: Vec<&str> = case.files.iter().map(|f| f.path.as_deref().unwrap_or_default()).collect();
                    trust_runtime::bytecode::BytecodeModule::from_runtime_with_sources_and_paths(&rt, &texts, &paths)
                } else {
                    trust_runtime::bytecode::BytecodeModule::from_runtime_with_sources(&rt, &texts)
                };
                let bytes = module.and_then(|m| m.encode()).map_err(|e| e.to_string());
                runtime = Some(Ok(rt));
                bytes
            }
            Err(e) => {
                runtime = Some(Err(e.to_string()));
                Err(e.to_string())
            }
        }
    };
    match compiled {
        Ok(bytes) => {
            rep.stbc = sha_hex(&bytes);
            rep.stbc_len = bytes.len();
            for (id, payload) in section_slices(&bytes) {
                rep.sections.push((id, sha_hex(payload)));
            }
            if let Ok(module) = trust_runtime::bytecode::BytecodeModule::decode(&bytes) {
                use trust_runtime::bytecode::{SectionData, SectionId};
                if let Some(SectionData::StringTable(t)) = module.section(SectionId::StringTable) {
                    rep.strings = t.entries.len();
                }
                if let Some(SectionData::PouIndex(p)) = module.section(SectionId::PouIndex) {
                    rep.pous = p.entries.len();
                }
                if full {
                    for s in &module.sections {
                        let text = format!("{:#?}", s.data);
                        fl.sections.insert(s.id, text.lines().map(|l| l.to_string()).collect());
                    }
                }
            }
        }
        Err(e) => {
            rep.stbc = "ERR".into();
            fl.compile_error = e;
        }
    }
    // 2. run the trace
    let mut faults: Vec<String> = Vec::new();
    let mut events: Vec<String> = Vec::new();
    let runtime = runtime.unwrap_or_else(|| session.build_runtime().map_err(|e| e.to_string()));
    match runtime {
        Ok(mut rt) => {
            let debug = rt.enable_debug();
            // retain store (its save interval is SIMULATED time)
            let attached: Option<Attached> = case.retain.as_ref().map(|cfg| {
                if cfg.file && !ctx.scratch.is_empty() {
                    let n = RETAIN_FILE_SEQ.fetch_add(1, std::sync::atomic::Ordering::SeqCst);
                    let p = std::path::Path::new(&ctx.scratch).join(format!("retain-{n}.bin"));
                    let _ = std::fs::remove_file(&p);
                    Attached::File(p)
                } else {
                    Attached::Mem(MemStore::default())
                }
            });
            let interval = case.retain.as_ref().and_then(|c| c.interval_ns).map(Duration::from_nanos);
            if let Some(a) = &attached {
                rt.set_retain_store(Some(a.boxed()), interval);
            }
            let delay_ms: u64 = match (ctx.cycle_delays, case.retain.as_ref().and_then(|c| c.interval_ns)) {
                (true, Some(1_000_000)) => 3,
                (true, Some(500_000_000)) if rep_index == 1 => 600,
                _ => 0,
            };
            for (i, step) in case.trace.iter().enumerate() {
                for w in &step.writes {
                    match w {
                        Write::Direct { addr, val } => match IoAddress::parse(addr) {
                            Ok(a) => {
                                if let Err(e) = rt.io_mut().write(&a, to_io_value(val)) {
                                    faults.push(format!("cycle {i}: input {addr}: {e}"));
                                }
                            }
                            Err(e) => faults.push(format!("cycle {i}: address {addr}: {e}")),
                        },
                        Write::Global { name, val } => {
                            if rt.storage().get_global(name).is_some() {
                                rt.storage_mut().set_global(name.as_str(), to_value(val));
                            }
                        }
                    }
                }
                rt.advance_time(Duration::from_nanos(step.dt_ns));
                let res = rt.execute_cycle().map_err(|e| format!("{e:?}"));
                if let Err(e) = &res {
                    faults.push(format!("cycle {i}: {e}"));
                }
                let mut lines = dump_state(&rt, i, &res);
                if let Some(a) = &attached {
                    // what a power loss right after this cycle would leave behind
                    lines.push(a.observe());
                }
                if delay_ms > 0 && (delay_ms < 100 || i < 3) {
                    // deliberate host delay between cycles (an input: the same clock trace
                    // replayed more slowly in real time)
                    std::thread::sleep(std::time::Duration::from_millis(delay_ms));
                }
                rep.cycles.push(sha_hex(lines.join("\n").as_bytes()));
                if full {
                    fl.cycles.push(lines);
                }
                for ev in debug.drain_runtime_events() {
                    events.push(format!("cycle {i}: {}", fmt_event(&ev)));
                }
            }
            // power loss: the runtime is dropped WITHOUT a final save; a fresh runtime of the same
            // project loads whatever the store holds
            if let Some(a) = &attached {
                if let Attached::Mem(m) = a {
                    rep.stores = m.inner.lock().map(|g| g.stores).unwrap_or(0);
                }
                drop(rt);
                let lines = match session.build_runtime() {
                    Ok(mut fresh) => {
                        fresh.set_retain_store(Some(a.boxed()), interval);
                        let loaded = fresh.load_retain_store().map_err(|e| format!("{e:?}"));
                        let mut l = dump_state(&fresh, 0, &loaded);
                        l.insert(0, "restored after power loss".into());
                        l
                    }
                    Err(e) => vec![format!("fresh runtime: {e}")],
                };
                rep.restored = sha_hex(lines.join("\n").as_bytes());
                if full {
                    fl.restored = lines;
                }
                if let Attached::File(p) = a {
                    let _ = std::fs::remove_file(p);
                }
            }
        }
        Err(e) => {
            faults.push(format!("build_runtime: {e}"));
        }
    }
    // 3. one more compile entry point for projects that exist on disk: the bundle builder
    if rep_index == 0 {
        if let (Some(root), false) = (&case.bundle_sources, ctx.scratch.is_empty()) {
            let out_root = std::path::Path::new(&ctx.scratch).join("bundle");
            let _ = std::fs::remove_dir_all(&out_root);
            let _ = std::fs::create_dir_all(&out_root);
            let src = std::path::Path::new(root).join("src");
            match trust_runtime::bundle_builder::build_program_stbc(&out_root, Some(&src)) {
                Ok(report) => match std::fs::read(&report.program_path) {
                    Ok(b) => rep.bundle = sha_hex(&b),
                    Err(e) => rep.bundle = format!("ERR:read {e}"),
                },
                Err(e) => {
                    rep.bundle = "ERR".into();
                    fl.bundle_error = format!("{e:#}");
                }
            }
            if let Some(h) = &case.history {
                let (hist, fresh, nodebug, log) = run_history(case, h, &ctx.scratch);
                rep.hist = hist;
                rep.hist_fresh = fresh;
                rep.hist_nodebug = nodebug;
                fl.hist_log = log;
            }
        }
    }
    rep.fault_count = faults.len();
    rep.event_count = events.len();
    rep.faults = sha_hex(faults.join("\n").as_bytes());
    rep.events = sha_hex(events.join("\n").as_bytes());
    if full {
        fl.faults = faults;
        fl.events = events;
        rep.full = Some(fl);
    }
    rep
}

/// Per-child settings a repetition needs.
#[derive(Clone, Default)]
pub struct RunEnv {
    pub cycle_delays: bool,
    pub scratch: String,
}

pub fn run_case(case: &ChildCase, full: bool, pause_ms: u64, public_api: bool, env: &RunEnv) -> CaseResult {
    // the compiler sees the padded texts
    let expanded = ChildCase {
        files: case.files.iter().map(|f| SrcFile { path: f.path.clone(), text: expand(f), pad: 0 }).collect(),
        ..case.clone()
    };
    let case = &expanded;
    let total: usize = case.files.iter().map(|f| f.text.len()).sum();
    // the large class (>= 64 KiB of text, fewer than 32 files) is compiled three times per child
    let n_reps = if total >= 64 * 1024 && case.files.len() < 32 { 3 } else { 2 };
    let mut reps = Vec::new();
    for k in 0..n_reps {
        if k == 1 && pause_ms > 0 {
            std::thread::sleep(std::time::Duration::from_millis(pause_ms));
        }
        let rep = match catch(|| run_rep(case, full, public_api && k == 0, k, env)) {
            Ok(r) => r,
            Err(msg) => Rep { stbc: format!("PANIC:{msg}"), ..Rep::default() },
        };
        reps.push(rep);
    }
    CaseResult { reps }
}

pub fn run_case_dev(case: &ChildCase, full: bool) -> CaseResult {
    run_case(case, full, 0, true, &RunEnv::default())
}

/// `tpv c05-worker <job-file>`
pub fn main(args: &[String]) -> i32 {
    let Some(path) = args.get(1) else {
        eprintln!("usage: tpv c05-worker <job-file>");
        return 2;
    };
    let job: Job = match std::fs::read_to_string(path).ok().and_then(|t| serde_json::from_str(&t).ok()) {
        Some(j) => j,
        None => {
            eprintln!("c05-worker: cannot read job {path}");
            return 2;
        }
    };
    crate::engine::install_quiet_panic_hook();
    // self-destruct: a wedged child must not outlive the check (infrastructure, exit 3)
    std::thread::spawn(|| {
        std::thread::sleep(std::time::Duration::from_secs(900));
        eprintln!("c05-worker: watchdog");
        std::process::exit(3);
    });
    // pre-amble: threads + allocations of varied sizes, half of them freed again, so that
    // heap layout, thread-local state and addresses differ between the children
    let (tx, rx) = std::sync::mpsc::channel::<()>();
    let rx = std::sync::Arc::new(std::sync::Mutex::new(rx));
    let mut parked = Vec::new();
    for _ in 0..job.threads {
        let rx = rx.clone();
        parked.push(std::thread::spawn(move || {
            let _m: std::collections::HashMap<u32, u32> = (0..64).map(|i| (i, i)).collect();
            let _ = rx.lock().map(|r| r.recv());
        }));
    }
    let mut keep: Vec<Vec<u8>> = Vec::new();
    for i in 0..job.allocs {
        let v = vec![i as u8; 17 + (i * 7919) % 9000];
        if i % 2 == 0 {
            keep.push(v);
        }
    }
    let n = job.cases.len();
    let mut order: Vec<usize> = job.order.iter().copied().filter(|i| *i < n).collect();
    for i in 0..n {
        if !order.contains(&i) {
            order.push(i);
        }
    }
    let job = std::sync::Arc::new(job);
    let mut results: Vec<Option<CaseResult>> = (0..n).map(|_| None).collect();
    if job.separate_threads {
        // one fresh thread per case, one after the other
        for (pos, idx) in order.iter().copied().enumerate() {
            let j = job.clone();
            let h = std::thread::Builder::new().stack_size(64 << 20).spawn(move || {
                run_case(&j.cases[idx], j.full, if pos == 0 { j.pause_ms } else { 0 }, j.public_api, &RunEnv { cycle_delays: j.cycle_delays, scratch: j.scratch.clone() })
            });
            match h.map(|h| h.join()) {
                Ok(Ok(r)) => results[idx] = Some(r),
                _ => {
                    eprintln!("c05-worker: case thread failed");
                    return 3;
                }
            }
        }
    } else {
        // the whole batch on ONE thread in this child's order: whatever a compilation or a
        // run leaves behind in the thread / the process is there for the next project
        let j = job.clone();
        let ord = order.clone();
        let h = std::thread::Builder::new().stack_size(64 << 20).spawn(move || {
            let mut out = Vec::new();
            for (pos, idx) in ord.iter().copied().enumerate() {
                out.push((idx, run_case(&j.cases[idx], j.full, if pos == 0 { j.pause_ms } else { 0 }, j.public_api, &RunEnv { cycle_delays: j.cycle_delays, scratch: j.scratch.clone() })));
            }
            out
        });
        match h.map(|h| h.join()) {
            Ok(Ok(list)) => {
                for (idx, r) in list {
                    results[idx] = Some(r);
                }
            }
            _ => {
                eprintln!("c05-worker: worker thread failed");
                return 3;
            }
        }
    }
    let results: Vec<CaseResult> = match results.into_iter().collect::<Option<Vec<_>>>() {
        Some(r) => r,
        None => {
            eprintln!("c05-worker: missing result");
            return 3;
        }
    };
    drop(tx);
    for h in parked {
        let _ = h.join();
    }
    drop(keep);
    match serde_json::to_string(&results) {
        Ok(t) => {
            println!("{t}");
            0
        }
        Err(_) => 3,
    }
}
