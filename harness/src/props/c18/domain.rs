//! C18 domain: request types extracted from the sources under test, the harness's own
//! classification of request types, parameter schemas, credentials, generators.

use std::collections::{BTreeMap, BTreeSet};

use serde::{Deserialize, Serialize};
use serde_json::{json, Value as J};

use crate::engine::tape::Reader;

// ---------------------------------------------------------------------------------------
// request types found in the sources
// ---------------------------------------------------------------------------------------

#[derive(Debug, Default, Clone)]
pub struct Extracted {
    /// type -> handler file stem (status, io, debug, variables, program, ...)
    pub dispatch: BTreeMap<String, String>,
    pub required_table: BTreeSet<String>,
    pub debug_gate: BTreeSet<String>,
}

impl Extracted {
    pub fn all(&self) -> BTreeSet<String> {
        let mut s: BTreeSet<String> = self.dispatch.keys().cloned().collect();
        s.extend(self.required_table.iter().cloned());
        s.extend(self.debug_gate.iter().cloned());
        s
    }
}

/// Every string literal in `text` (no raw strings are used in the files concerned), with
/// the byte offsets of the opening and closing quote. Comments are skipped.
fn string_literals(text: &str) -> Vec<(usize, usize, String)> {
    let b = text.as_bytes();
    let mut out = Vec::new();
    let mut i = 0;
    while i < b.len() {
        match b[i] {
            b'/' if i + 1 < b.len() && b[i + 1] == b'/' => {
                while i < b.len() && b[i] != b'\n' {
                    i += 1;
                }
            }
            b'/' if i + 1 < b.len() && b[i + 1] == b'*' => {
                i += 2;
                while i + 1 < b.len() && !(b[i] == b'*' && b[i + 1] == b'/') {
                    i += 1;
                }
                i += 2;
            }
            b'\'' => {
                // char literal or lifetime: skip 'x' / '\n' forms, otherwise just the quote
                if i + 2 < b.len() && b[i + 1] == b'\\' {
                    i += 2;
                    while i < b.len() && b[i] != b'\'' {
                        i += 1;
                    }
                    i += 1;
                } else if i + 2 < b.len() && b[i + 2] == b'\'' {
                    i += 3;
                } else {
                    i += 1;
                }
            }
            b'"' => {
                let start = i;
                i += 1;
                let mut s = String::new();
                while i < b.len() && b[i] != b'"' {
                    if b[i] == b'\\' && i + 1 < b.len() {
                        s.push(b[i + 1] as char);
                        i += 2;
                    } else {
                        s.push(b[i] as char);
                        i += 1;
                    }
                }
                out.push((start, i, s));
                i += 1;
            }
            _ => i += 1,
        }
    }
    out
}

/// Is the literal in pattern position of a `match` arm: followed by `=>` or `|`, or preceded by `|`?
fn in_pattern_position(text: &str, start: usize, end: usize) -> bool {
    let after = text[end + 1..].trim_start();
    let before = text[..start].trim_end();
    after.starts_with("=>") || after.starts_with('|') || before.ends_with('|')
}

/// Body of `fn name(...) { ... }` (brace matched, literals/comments ignored well enough for
/// the two small functions concerned).
fn fn_body<'a>(text: &'a str, name: &str) -> Option<&'a str> {
    let at = text.find(&format!("fn {name}("))?;
    let open = at + text[at..].find('{')?;
    let lits = string_literals(&text[open..]);
    let b = text.as_bytes();
    let mut depth = 0i32;
    let mut i = open;
    while i < b.len() {
        if let Some((_, e, _)) = lits.iter().find(|(s, _, _)| open + *s == i) {
            i = open + *e + 1;
            continue;
        }
        match b[i] {
            b'{' => depth += 1,
            b'}' => {
                depth -= 1;
                if depth == 0 {
                    return Some(&text[open..=i]);
                }
            }
            _ => {}
        }
        i += 1;
    }
    None
}

pub fn extract(repo: &std::path::Path) -> Result<Extracted, String> {
    let base = repo.join("crates/trust-runtime/src");
    let mut ex = Extracted::default();
    let hdir = base.join("control/handlers");
    let rd = std::fs::read_dir(&hdir).map_err(|e| format!("{}: {e}", hdir.display()))?;
    let mut files: Vec<_> = rd.flatten().map(|e| e.path()).collect();
    files.sort();
    for p in files {
        if p.extension().map(|e| e != "rs").unwrap_or(true) {
            continue;
        }
        let stem = p.file_stem().and_then(|s| s.to_str()).unwrap_or("").to_string();
        let text = std::fs::read_to_string(&p).map_err(|e| format!("{}: {e}", p.display()))?;
        for (s, e, lit) in string_literals(&text) {
            if in_pattern_position(&text, s, e) {
                ex.dispatch.entry(lit).or_insert_with(|| stem.clone());
            }
        }
    }
    let control = base.join("control.rs");
    let text = std::fs::read_to_string(&control).map_err(|e| format!("{}: {e}", control.display()))?;
    let body = fn_body(&text, "required_role_for_control_request")
        .ok_or("required_role_for_control_request not found in control.rs")?;
    for (s, e, lit) in string_literals(body) {
        if in_pattern_position(body, s, e) {
            ex.required_table.insert(lit);
        }
    }
    let body = fn_body(&text, "is_debug_request").ok_or("is_debug_request not found in control.rs")?;
    for (_, _, lit) in string_literals(body) {
        ex.debug_gate.insert(lit);
    }
    if ex.dispatch.len() < 20 || ex.required_table.len() < 20 || ex.debug_gate.len() < 5 {
        return Err(format!(
            "implausibly few request types extracted (dispatch {}, role table {}, debug gate {})",
            ex.dispatch.len(),
            ex.required_table.len(),
            ex.debug_gate.len()
        ));
    }
    Ok(ex)
}

// ---------------------------------------------------------------------------------------
// the harness's own classification (from the property text and from reading each handler)
// ---------------------------------------------------------------------------------------

/// Request types that can change runtime state, I/O, configuration, program or pairing data.
pub const MUTATING: &[&str] = &[
    "config.set",            // settings, auth token, control mode, debug switch
    "hmi.descriptor.update", // writes hmi/*.toml under the project, swaps the live descriptor
    "hmi.scaffold.reset",    // rewrites hmi/*.toml
    "hmi.alarm.ack",         // alarm state
    "hmi.write",             // queues a variable write
    "io.write",              // queues an input write
    "io.force",
    "io.unforce",
    "pause",
    "resume",
    "step_in",
    "step_over",
    "step_out",
    "breakpoints.set",
    "breakpoints.clear",
    "breakpoints.clear_all",
    "breakpoints.clear_id",
    "set",
    "var.force",
    "var.unforce",
    "shutdown",
    "restart",
    "bytecode.reload",
    "pair.start",
    "pair.claim",
    "pair.revoke",
];

/// Request types the harness has read and found to be read-only (apart from volatile
/// bookkeeping: HMI trend/alarm cache refresh, debugger variable handles, stop-event queue).
pub const READ_ONLY: &[&str] = &[
    "status", "health", "tasks.stats", "events.tail", "events", "faults", "config.get",
    "historian.query", "historian.alerts", "io.list", "io.read", "hmi.schema.get",
    "hmi.values.get", "hmi.trends.get", "hmi.alarms.get", "hmi.descriptor.get", "debug.state",
    "debug.stops", "debug.stack", "debug.scopes", "debug.variables", "debug.evaluate",
    "debug.breakpoint_locations", "breakpoints.list", "eval", "var.forced", "pair.list",
];

/// Debug-class requests: debugger execution control, breakpoints, debugger inspection and
/// debugger variable access.
pub const DEBUG_CLASS: &[&str] = &[
    "pause", "resume", "step_in", "step_over", "step_out", "breakpoints.set", "breakpoints.clear",
    "breakpoints.clear_all", "breakpoints.clear_id", "breakpoints.list", "eval", "set", "var.force",
    "var.unforce", "var.forced", "debug.state", "debug.stops", "debug.stack", "debug.scopes",
    "debug.variables", "debug.evaluate", "debug.breakpoint_locations",
];

pub fn is_mutating(ty: &str) -> bool {
    MUTATING.contains(&ty)
}
pub fn is_read_only(ty: &str) -> bool {
    READ_ONLY.contains(&ty)
}

// ---------------------------------------------------------------------------------------
// credentials
// ---------------------------------------------------------------------------------------

#[derive(Clone, Copy, Debug, PartialEq, Eq, PartialOrd, Ord, Serialize, Deserialize)]
pub enum Cred {
    None,
    Wrong,
    Empty,
    Admin,
    Viewer,
    Operator,
    Engineer,
    Expired,
    Revoked,
    // garbled variants (generated phase only)
    AdminPadded,
    AdminUpper,
    AdminPrefix,
    EngineerPadded,
    AuthNull,
    AuthNumber,
    AuthArrayOfAdmin,
}

pub const GRID_CREDS: &[Cred] = &[
    Cred::None,
    Cred::Wrong,
    Cred::Empty,
    Cred::Admin,
    Cred::Viewer,
    Cred::Operator,
    Cred::Engineer,
    Cred::Expired,
    Cred::Revoked,
];

pub const GARBLED_CREDS: &[Cred] = &[
    Cred::AdminPadded,
    Cred::AdminUpper,
    Cred::AdminPrefix,
    Cred::EngineerPadded,
    Cred::AuthNull,
    Cred::AuthNumber,
    Cred::AuthArrayOfAdmin,
];

/// Role the credential stands for, by the property's reading.
#[derive(Clone, Copy, Debug, PartialEq, Eq, PartialOrd, Ord)]
pub enum Level {
    /// token configured, credential neither the token nor a live pairing token
    Unauth = 0,
    Viewer = 1,
    Operator = 2,
    Engineer = 3,
    Admin = 4,
}

impl Level {
    pub fn parse(s: &str) -> Option<Level> {
        match s.trim() {
            "viewer" => Some(Level::Viewer),
            "operator" => Some(Level::Operator),
            "engineer" => Some(Level::Engineer),
            "admin" => Some(Level::Admin),
            _ => None,
        }
    }
}

/// `None` = the property makes no statement (no auth token configured and the credential is
/// not a live pairing token: the endpoint trusts its local socket).
pub fn level(cred: Cred, token_set: bool) -> Option<Level> {
    match cred {
        Cred::Viewer => Some(Level::Viewer),
        Cred::Operator => Some(Level::Operator),
        Cred::Engineer => Some(Level::Engineer),
        Cred::Admin if token_set => Some(Level::Admin),
        _ if token_set => Some(Level::Unauth),
        _ => None,
    }
}

/// Does the request line carry a pairing-store lookup (any string credential other than
/// the configured admin token)?
pub fn touches_pairing_store(cred: Cred, token_set: bool) -> bool {
    match cred {
        Cred::None | Cred::AuthNull | Cred::AuthNumber | Cred::AuthArrayOfAdmin => false,
        Cred::Admin => !token_set,
        _ => true,
    }
}

// ---------------------------------------------------------------------------------------
// parameter schemas. Placeholders ($CODE, $ALARM, $FILEID, $BPLINE, $PAIRID) are filled in
// from the fixture when the line is built.
// ---------------------------------------------------------------------------------------

fn descriptor_update_params() -> J {
    json!({"descriptor": {
        "config": {"theme": {"style": "industrial", "accent": "#22d3ee"}, "layout": {}, "write": {}, "alarm": []},
        "pages": [{
            "id": "overview", "title": "Overview", "icon": "activity", "order": 0, "kind": "dashboard",
            "duration_ms": null, "svg": null, "signals": [],
            "sections": [{"title": "Drive", "span": 12, "widgets": [{
                "widget_type": "gauge", "bind": "Main.zq_canary_speed", "label": "Speed Updated",
                "unit": "rpm", "min": 0, "max": 100, "span": 6, "on_color": null, "off_color": null, "zones": []
            }]}],
            "bindings": []
        }]
    }})
}

/// Valid parameter variants per request type; the first is the one used when a single
/// representative is needed. Chosen so that a served request has a visible effect on the
/// fixture's baseline state wherever the request can have one.
pub fn valid_params(ty: &str) -> Vec<Option<J>> {
    match ty {
        "events.tail" | "events" | "faults" => vec![Some(json!({"limit": 5})), None],
        "hmi.values.get" => vec![None, Some(json!({"ids": [super::fixture::HMI_WRITE_ID]}))],
        "hmi.trends.get" => vec![Some(json!({"duration_ms": 60000, "buckets": 8}))],
        "hmi.alarms.get" => vec![Some(json!({"limit": 10}))],
        "historian.query" => vec![Some(json!({"variable": "Main.zq_canary_speed", "limit": 5}))],
        "historian.alerts" => vec![Some(json!({"limit": 5}))],
        "config.set" => vec![
            Some(json!({"log.level": "debug"})),
            Some(json!({"control.auth_token": "fresh-token-1"})),
            Some(json!({"control.auth_token": null})),
            Some(json!({"control.mode": "$OTHERMODE"})),
            Some(json!({"control.debug_enabled": "$OTHERDEBUG"})),
            Some(json!({"mesh.auth_token": "mesh-secret"})),
            Some(json!({"watchdog.timeout_ms": 1234, "fault.policy": "halt"})),
            Some(json!({"web.listen": "0.0.0.0:8080", "web.enabled": true})),
        ],
        "hmi.descriptor.update" => vec![Some(descriptor_update_params())],
        "hmi.scaffold.reset" => vec![Some(json!({"mode": "reset", "style": "industrial"})), None],
        "hmi.alarm.ack" => vec![Some(json!({"id": "$ALARM"}))],
        "hmi.write" => vec![Some(json!({"id": super::fixture::HMI_WRITE_ID, "value": false}))],
        "io.write" => vec![Some(json!({"address": "%IX0.2", "value": "true"}))],
        "io.force" => vec![Some(json!({"address": "%QX0.2", "value": "true"}))],
        "io.unforce" => vec![Some(json!({"address": "%QX0.1"}))],
        "eval" => vec![Some(json!({"expr": "Main"}))],
        "set" => vec![
            Some(json!({"target": "global:zq_other", "value": "42"})),
            Some(json!({"target": "retain:zq_other", "value": "TRUE"})),
        ],
        "var.force" => vec![
            Some(json!({"target": "global:zq_other", "value": "7"})),
            Some(json!({"target": "instance:1:run", "value": "FALSE"})),
        ],
        "var.unforce" => vec![Some(json!({"target": "global:zq_forced"}))],
        "debug.scopes" => vec![Some(json!({"frame_id": 0}))],
        "debug.variables" => vec![Some(json!({"variables_reference": 1}))],
        "debug.evaluate" => vec![Some(json!({"expression": "1 + 1"}))],
        "debug.breakpoint_locations" => {
            vec![Some(json!({"source": "main.st", "line": 1, "end_line": 40}))]
        }
        "breakpoints.set" => vec![Some(json!({"source": "main.st", "lines": ["$BPLINE"]}))],
        "breakpoints.clear" => vec![Some(json!({"source": "main.st", "lines": []}))],
        "breakpoints.clear_id" => vec![Some(json!({"file_id": "$FILEID"}))],
        "restart" => vec![Some(json!({"mode": "warm"})), Some(json!({"mode": "COLD"}))],
        "bytecode.reload" => vec![Some(json!({"bytes": "U1RCQwAAAAA="}))],
        "pair.claim" => vec![
            Some(json!({"code": "$CODE", "role": "engineer"})),
            Some(json!({"code": "$CODE"})),
        ],
        "pair.revoke" => vec![Some(json!({"id": "$PAIRID"})), Some(json!({"id": "all"}))],
        _ => vec![None],
    }
}

/// Every valid parameter object of every schema - what an unclassified request type found
/// in the sources is probed with (its handler is one of the known ones under another name).
pub fn params_pool() -> Vec<Option<J>> {
    let mut out: Vec<Option<J>> = vec![None];
    let mut seen = BTreeSet::new();
    for ty in MUTATING.iter().chain(READ_ONLY.iter()) {
        for p in valid_params(ty) {
            if let Some(p) = p {
                if seen.insert(p.to_string()) {
                    out.push(Some(p));
                }
            }
        }
    }
    out
}

fn nested(depth: usize, array: bool) -> J {
    let mut v = json!(1);
    for _ in 0..depth {
        v = if array { json!([v]) } else { json!({"a": v}) };
    }
    v
}

const ODD_VALUES: &[&str] = &[
    "null", "true", "0", "-1", "1.5", "1e308", "18446744073709551615", "18446744073709551616",
    "-9223372036854775809", "\"\"", "\" \"", "\"all\"", "\"global:\"", "\"instance:x:y\"",
    "\"instance:4294967295:run\"", "\"%QX0.0\"", "\"%IX99999999999.0\"", "\"%\"", "\"\\u0000\"",
    "\"\\ud83d\\ude00\"", "\"../../etc/passwd\"", "[]", "[1,2,3]", "{}", "{\"a\":{}}", "[\"a\",1]",
    "4294967295", "4294967296", "\"admin\"", "\"ADMIN\"", "\" viewer \"",
];

/// Derive a parameter value of the given shape from a valid one.
pub fn shape_params(ty: &str, shape: &str, r: &mut Reader) -> Option<J> {
    let valid = valid_params(ty);
    let base = valid[r.pick(valid.len())].clone();
    match shape {
        "valid" => base,
        "missing" => None,
        "null" => Some(J::Null),
        "wrong_typed" => {
            let odd: J = serde_json::from_str(ODD_VALUES[r.pick(ODD_VALUES.len())]).unwrap_or(J::Null);
            match base {
                Some(J::Object(mut m)) if !m.is_empty() => {
                    let keys: Vec<String> = m.keys().cloned().collect();
                    let k = &keys[r.pick(keys.len())];
                    if r.chance(1, 6) {
                        m.remove(k);
                    } else {
                        m.insert(k.clone(), odd);
                    }
                    Some(J::Object(m))
                }
                _ => Some(odd),
            }
        }
        "non_object" => Some(
            serde_json::from_str(ODD_VALUES[r.pick(ODD_VALUES.len())]).unwrap_or(J::Null),
        ),
        "extra_fields" => match base {
            Some(J::Object(mut m)) => {
                m.insert("role".into(), json!("admin"));
                m.insert("auth".into(), json!(super::fixture::ADMIN_TOKEN));
                m.insert("control.auth_token".into(), json!("sneaky"));
                Some(J::Object(m))
            }
            _ => Some(json!({"role": "admin", "control.auth_token": "sneaky", "log.level": "trace"})),
        },
        "huge" => {
            let big = match r.pick(4) {
                0 => json!("x".repeat(100_000)),
                1 => J::Array((0..20_000).map(|i| json!(i)).collect()),
                2 => json!(1.0e308),
                _ => json!(u64::MAX),
            };
            match base {
                Some(J::Object(mut m)) if !m.is_empty() => {
                    let keys: Vec<String> = m.keys().cloned().collect();
                    let k = keys[r.pick(keys.len())].clone();
                    m.insert(k, big);
                    Some(J::Object(m))
                }
                _ => Some(json!({"limit": big, "ids": big, "id": big})),
            }
        }
        _ => {
            // "nested": within serde_json's recursion limit (the line still parses)
            let d = 8 + r.pick(100);
            let v = nested(d, r.flag());
            match base {
                Some(J::Object(mut m)) if !m.is_empty() && r.flag() => {
                    let keys: Vec<String> = m.keys().cloned().collect();
                    let k = keys[r.pick(keys.len())].clone();
                    m.insert(k, v);
                    Some(J::Object(m))
                }
                _ => Some(v),
            }
        }
    }
}

/// Every (member, odd value) replacement and every member removal of the valid parameter
/// objects of `ty` - the enumerated robustness sweep.
pub fn odd_param_variants(ty: &str) -> Vec<J> {
    let mut out = Vec::new();
    let mut seen = BTreeSet::new();
    for base in valid_params(ty).into_iter().flatten() {
        let J::Object(m) = base else { continue };
        for k in m.keys() {
            let mut without = m.clone();
            without.remove(k);
            if seen.insert(J::Object(without.clone()).to_string()) {
                out.push(J::Object(without));
            }
            for odd in ODD_VALUES {
                let v: J = serde_json::from_str(odd).unwrap_or(J::Null);
                let mut mm = m.clone();
                mm.insert(k.clone(), v);
                let j = J::Object(mm);
                if seen.insert(j.to_string()) {
                    out.push(j);
                }
            }
        }
    }
    out
}

pub const SHAPES: &[&str] = &[
    "valid", "missing", "null", "wrong_typed", "non_object", "extra_fields", "huge", "nested",
];

/// Unknown / garbled / case-varied / padded variants of a request type.
pub fn garble_type(ty: &str, how: usize) -> String {
    match how % 14 {
        0 => ty.to_ascii_uppercase(),
        1 => {
            let mut c = ty.chars();
            match c.next() {
                Some(f) => f.to_ascii_uppercase().to_string() + c.as_str(),
                None => String::new(),
            }
        }
        2 => format!(" {ty}"),
        3 => format!("{ty} "),
        4 => format!("{ty}\t"),
        5 => format!("{ty}\u{0}"),
        6 => format!("{ty}.x"),
        7 => ty.replace('.', "_"),
        8 => ty.replace('.', ".\u{200b}"),
        9 => ty.chars().take(ty.chars().count().saturating_sub(1)).collect(),
        10 => format!("{ty}{ty}"),
        11 => ty.replace('.', ".."),
        12 => format!("\u{feff}{ty}"),
        _ => ty.chars().rev().collect(),
    }
}

pub const UNKNOWN_TYPES: &[&str] = &[
    "", " ", "does.not.exist", "admin", "config", "config.", ".set", "io", "io.*", "*", "pair",
    "pair.approve", "program.download", "bytecode.upload", "__proto__", "constructor", "toString",
    "null", "0", "status;shutdown", "status\nshutdown", "shutdown\u{0}", "\u{1F600}",
];

// ---------------------------------------------------------------------------------------
// cases
// ---------------------------------------------------------------------------------------

/// One request template, swept over a list of credentials under one endpoint configuration.
#[derive(Clone, Debug, Serialize, Deserialize)]
pub struct GroupCase {
    pub cfg: super::fixture::Cfg,
    pub ty: String,
    /// type the parameters were built for (differs from `ty` for garbled/unknown types)
    pub schema_of: String,
    pub shape: String,
    pub params: Option<J>,
    /// extra top-level members of the request object
    #[serde(default)]
    pub extra: Option<J>,
    pub creds: Vec<Cred>,
}

/// One raw line (bytes) under one configuration.
#[derive(Clone, Debug, Serialize, Deserialize)]
pub struct LineCase {
    pub cfg: super::fixture::Cfg,
    pub class: String,
    pub bytes: Vec<u8>,
}

pub fn all_cfgs() -> Vec<super::fixture::Cfg> {
    let mut out = Vec::new();
    for token_set in [true, false] {
        for debug_enabled in [true, false] {
            for mode_debug in [false, true] {
                out.push(super::fixture::Cfg {
                    token_set,
                    debug_enabled,
                    mode_debug,
                    paused: false,
                });
            }
        }
    }
    out
}

pub fn group_from_tape(r: &mut Reader, types: &[String]) -> GroupCase {
    let cfgs = all_cfgs();
    let mut cfg = cfgs[r.pick(cfgs.len())];
    cfg.paused = r.chance(1, 5);
    // weighting: known types dominate, garbled and unknown ones get a fixed share
    let kind = r.weighted(&[12, 3, 1]);
    let base_ty = types[r.pick(types.len())].clone();
    let (ty, schema_of) = match kind {
        0 => (base_ty.clone(), base_ty),
        1 => (garble_type(&base_ty, r.pick(14)), base_ty),
        _ => (UNKNOWN_TYPES[r.pick(UNKNOWN_TYPES.len())].to_string(), base_ty),
    };
    let shape = SHAPES[r.weighted(&[8, 2, 1, 5, 2, 2, 1, 2])];
    let params = shape_params(&schema_of, shape, r);
    let extra = match r.weighted(&[10, 1, 1, 1]) {
        0 => None,
        1 => Some(json!({"role": "admin"})),
        2 => Some(json!({"user": "root", "admin": true, "required_role": "viewer"})),
        _ => Some(json!({"Auth": super::fixture::ADMIN_TOKEN, "token": super::fixture::ADMIN_TOKEN})),
    };
    let mut creds: Vec<Cred> = GRID_CREDS.to_vec();
    let extra_n = r.pick(3);
    for _ in 0..extra_n {
        let c = GARBLED_CREDS[r.pick(GARBLED_CREDS.len())];
        if !creds.contains(&c) {
            creds.push(c);
        }
    }
    GroupCase {
        cfg,
        ty,
        schema_of,
        shape: shape.to_string(),
        params,
        extra,
        creds,
    }
}

fn truncate_at(s: &[u8], at: usize) -> Vec<u8> {
    s[..at.min(s.len())].to_vec()
}

pub fn line_from_tape(r: &mut Reader, types: &[String]) -> LineCase {
    let cfgs = all_cfgs();
    let cfg = cfgs[r.pick(cfgs.len())];
    let ty = &types[r.pick(types.len())];
    let valid = valid_params(ty);
    let params = valid[r.pick(valid.len())].clone();
    let mut obj = serde_json::Map::new();
    obj.insert("id".into(), json!(7));
    obj.insert("type".into(), json!(ty));
    if let Some(p) = params {
        obj.insert("params".into(), p);
    }
    if r.flag() {
        obj.insert("auth".into(), json!(super::fixture::ADMIN_TOKEN));
    }
    let good = serde_json::to_vec(&J::Object(obj.clone())).unwrap();
    let (class, bytes): (&str, Vec<u8>) = match r.pick(16) {
        0 => ("truncated", truncate_at(&good, 1 + r.pick(good.len().saturating_sub(1).max(1)))),
        1 => ("empty", Vec::new()),
        2 => ("whitespace", b"   \t ".to_vec()),
        3 => (
            "non_object",
            [
                "[]", "123", "\"status\"", "null", "true", "[{\"id\":1,\"type\":\"status\"}]", "1e400",
                "-0", "{}",
            ][r.pick(9)]
            .as_bytes()
            .to_vec(),
        ),
        4 => {
            // id of the wrong kind
            let ids = [
                "-1", "1.5", "18446744073709551616", "1e3", "\"7\"", "null", "[7]", "{}", "true",
                "99999999999999999999999999999999999999",
            ];
            obj.insert("id".into(), serde_json::from_str(ids[r.pick(ids.len())]).unwrap_or(J::Null));
            ("bad_id", serde_json::to_vec(&J::Object(obj)).unwrap())
        }
        5 => {
            obj.remove(["id", "type"][r.pick(2)]);
            ("missing_member", serde_json::to_vec(&J::Object(obj)).unwrap())
        }
        6 => {
            let tys = ["7", "null", "[\"status\"]", "{\"a\":1}", "true"];
            obj.insert("type".into(), serde_json::from_str(tys[r.pick(tys.len())]).unwrap());
            ("bad_type_member", serde_json::to_vec(&J::Object(obj)).unwrap())
        }
        7 => {
            let auths = ["7", "[\"x\"]", "{\"token\":\"x\"}", "true"];
            obj.insert("auth".into(), serde_json::from_str(auths[r.pick(auths.len())]).unwrap());
            ("bad_auth_member", serde_json::to_vec(&J::Object(obj)).unwrap())
        }
        8 => {
            // nesting beyond serde_json's recursion limit
            let d = 200 + r.pick(20_000);
            let mut s = String::from("{\"id\":7,\"type\":\"status\",\"params\":");
            s.push_str(&"[".repeat(d));
            s.push_str(&"]".repeat(d));
            s.push('}');
            ("deep_nesting", s.into_bytes())
        }
        9 => {
            let mut s = good.clone();
            let n = 1 + r.pick(3);
            for _ in 0..n {
                if s.is_empty() {
                    break;
                }
                let at = r.pick(s.len());
                match r.pick(3) {
                    0 => {
                        s.remove(at);
                    }
                    1 => s[at] = b"{}[]\",:\\x0 "[r.pick(11)],
                    _ => s.insert(at, b"{}[]\",:\\x0 "[r.pick(11)]),
                }
            }
            ("byte_mutation", s)
        }
        10 => {
            // invalid UTF-8 inside an otherwise valid request
            let mut s = good.clone();
            let bad: &[&[u8]] = &[b"\xff", b"\xc3\x28", b"\xed\xa0\x80", b"\xf8\x88\x80\x80\x80", b"\x80"];
            let at = r.pick(s.len() + 1);
            let ins = bad[r.pick(bad.len())];
            for (k, b) in ins.iter().enumerate() {
                s.insert(at + k, *b);
            }
            ("invalid_utf8", s)
        }
        11 => {
            let mut s = b"\xef\xbb\xbf".to_vec();
            s.extend_from_slice(&good);
            ("bom_prefix", s)
        }
        12 => {
            let pads = ["\\ud800", "\\uDFFF", "\\u0000", "\\x41", "\\", "\u{0}", "\u{7f}\u{1b}[2J"];
            let s = format!(
                "{{\"id\":7,\"type\":\"status{}\"",
                pads[r.pick(pads.len())]
            );
            ("escape_edge", s.into_bytes())
        }
        13 => {
            let mut s = good.clone();
            s.extend_from_slice(b" trailing");
            ("trailing_garbage", s)
        }
        14 => {
            let mut s = good.clone();
            s.push(b'\r');
            s.extend_from_slice(&good);
            ("embedded_cr", s)
        }
        _ => {
            let n = 200_000 + r.pick(800_000);
            let mut s = Vec::with_capacity(n + 40);
            s.extend_from_slice(b"{\"id\":7,\"type\":\"");
            s.resize(s.len() + n, b'a');
            ("long_line", s)
        }
    };
    LineCase {
        cfg,
        class: class.to_string(),
        bytes,
    }
}
