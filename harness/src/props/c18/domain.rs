//! C18 domain: request types extracted from the sources under test, the harness's own
//! classification of request types, parameter schemas, credentials, generators.

use std::collections::{BTreeMap, BTreeSet};

use serde::{Deserialize, Serialize};
use serde_json::{json, Value as J};

use crate::engine::tape::Reader;

// ---------------------------------------------------------------------------------------
// request types found in the sources
// ---------------------------------------------------------------------------------------

#[derive(Debug, Default, Clone)]
pub struct Extracted {
    /// type -> handler file stem (status, io, debug, variables, program, ...)
    pub dispatch: BTreeMap<String, String>,
    pub required_table: BTreeSet<String>,
    pub debug_gate: BTreeSet<String>,
    /// request types whose arm in the role table looks at the parameters
    pub param_dependent: BTreeSet<String>,
    /// configuration keys `handle_config_set` knows
    pub config_keys: BTreeSet<String>,
    /// configuration keys `required_role_for_config_set` singles out
    pub config_sensitive: BTreeSet<String>,
    /// fields of `ControlState` whose type mentions `Option<` (name, type text)
    pub option_fields: Vec<(String, String)>,
}

impl Extracted {
    pub fn all(&self) -> BTreeSet<String> {
        let mut s: BTreeSet<String> = self.dispatch.keys().cloned().collect();
        s.extend(self.required_table.iter().cloned());
        s.extend(self.debug_gate.iter().cloned());
        s
    }
}

/// Every string literal in `text` (no raw strings are used in the files concerned), with
/// the byte offsets of the opening and closing quote. Comments are skipped.
fn string_literals(text: &str) -> Vec<(usize, usize, String)> {
    let b = text.as_bytes();
    let mut out = Vec::new();
    let mut i = 0;
    while i < b.len() {
        match b[i] {
            b'/' if i + 1 < b.len() && b[i + 1] == b'/' => {
                while i < b.len() && b[i] != b'\n' {
                    i += 1;
                }
            }
            b'/' if i + 1 < b.len() && b[i + 1] == b'*' => {
                i += 2;
                while i + 1 < b.len() && !(b[i] == b'*' && b[i + 1] == b'/') {
                    i += 1;
                }
                i += 2;
            }
            b'\'' => {
                // char literal or lifetime: skip 'x' / '\n' forms, otherwise just the quote
                if i + 2 < b.len() && b[i + 1] == b'\\' {
                    i += 2;
                    while i < b.len() && b[i] != b'\'' {
                        i += 1;
                    }
                    i += 1;
                } else if i + 2 < b.len() && b[i + 2] == b'\'' {
                    i += 3;
                } else {
                    i += 1;
                }
            }
            b'"' => {
                let start = i;
                i += 1;
                let mut s = String::new();
                while i < b.len() && b[i] != b'"' {
                    if b[i] == b'\\' && i + 1 < b.len() {
                        s.push(b[i + 1] as char);
                        i += 2;
                    } else {
                        s.push(b[i] as char);
                        i += 1;
                    }
                }
                out.push((start, i, s));
                i += 1;
            }
            _ => i += 1,
        }
    }
    out
}

/// Is the literal in pattern position of a `match` arm: followed by `=>` or `|`, or preceded by `|`?
fn in_pattern_position(text: &str, start: usize, end: usize) -> bool {
    let after = text[end + 1..].trim_start();
    let before = text[..start].trim_end();
    after.starts_with("=>") || after.starts_with('|') || before.ends_with('|')
}

/// Body of `fn name(...) { ... }` (brace matched, literals/comments ignored well enough for
/// the two small functions concerned).
fn fn_body<'a>(text: &'a str, name: &str) -> Option<&'a str> {
    let at = text.find(&format!("fn {name}("))?;
    let open = at + text[at..].find('{')?;
    let lits = string_literals(&text[open..]);
    let b = text.as_bytes();
    let mut depth = 0i32;
    let mut i = open;
    while i < b.len() {
        if let Some((_, e, _)) = lits.iter().find(|(s, _, _)| open + *s == i) {
            i = open + *e + 1;
            continue;
        }
        match b[i] {
            b'{' => depth += 1,
            b'}' => {
                depth -= 1;
                if depth == 0 {
                    return Some(&text[open..=i]);
                }
            }
            _ => {}
        }
        i += 1;
    }
    None
}

pub fn extract(repo: &std::path::Path) -> Result<Extracted, String> {
    let base = repo.join("crates/trust-runtime/src");
    let mut ex = Extracted::default();
    let hdir = base.join("control/handlers");
    let rd = std::fs::read_dir(&hdir).map_err(|e| format!("{}: {e}", hdir.display()))?;
    let mut files: Vec<_> = rd.flatten().map(|e| e.path()).collect();
    files.sort();
    for p in files {
        if p.extension().map(|e| e != "rs").unwrap_or(true) {
            continue;
        }
        let stem = p.file_stem().and_then(|s| s.to_str()).unwrap_or("").to_string();
        let text = std::fs::read_to_string(&p).map_err(|e| format!("{}: {e}", p.display()))?;
        for (s, e, lit) in string_literals(&text) {
            if in_pattern_position(&text, s, e) {
                ex.dispatch.entry(lit).or_insert_with(|| stem.clone());
            }
        }
    }
    let control = base.join("control.rs");
    let text = std::fs::read_to_string(&control).map_err(|e| format!("{}: {e}", control.display()))?;
    let body = fn_body(&text, "required_role_for_control_request")
        .ok_or("required_role_for_control_request not found in control.rs")?;
    for (s, e, lit) in string_literals(body) {
        if in_pattern_position(body, s, e) {
            ex.required_table.insert(lit);
        }
    }
    // arms of the role table whose result depends on the parameters: `"x" | "y" => f(params)`
    {
        let lits = string_literals(body);
        let mut from = 0usize;
        while let Some(rel) = body[from..].find("=>") {
            let arrow = from + rel;
            let end = body[arrow..].find('\n').map(|n| arrow + n).unwrap_or(body.len());
            if body[arrow..end].contains("params") {
                // the literals of this arm: those between the previous "=>" line end and this arrow
                let arm_start = body[..arrow].rfind("=>").map(|p| body[p..].find('\n').map(|n| p + n).unwrap_or(p)).unwrap_or(0);
                for (s0, e0, lit) in &lits {
                    if *s0 >= arm_start && *e0 < arrow && in_pattern_position(body, *s0, *e0) {
                        ex.param_dependent.insert(lit.clone());
                    }
                }
            }
            from = arrow + 2;
        }
    }
    if let Some(body) = fn_body(&text, "handle_config_set") {
        for (s0, e0, lit) in string_literals(body) {
            if in_pattern_position(body, s0, e0) && lit.contains('.') && !lit.contains(' ') {
                ex.config_keys.insert(lit);
            }
        }
    }
    if let Some(body) = fn_body(&text, "required_role_for_config_set") {
        for (_, _, lit) in string_literals(body) {
            if lit.contains('.') && !lit.contains(' ') {
                ex.config_sensitive.insert(lit);
            }
        }
    }
    // optional parts of ControlState
    if let Some(at) = text.find("pub struct ControlState {") {
        let end = text[at..].find("\n}").map(|e| at + e).unwrap_or(text.len());
        for line in text[at..end].lines() {
            let line = line.trim();
            if let Some(rest) = line.strip_prefix("pub ") {
                if let Some((name, ty)) = rest.split_once(':') {
                    if ty.contains("Option<") {
                        ex.option_fields
                            .push((name.trim().to_string(), ty.trim().trim_end_matches(',').to_string()));
                    }
                }
            }
        }
    }
    let body = fn_body(&text, "is_debug_request").ok_or("is_debug_request not found in control.rs")?;
    for (_, _, lit) in string_literals(body) {
        ex.debug_gate.insert(lit);
    }
    if ex.dispatch.len() < 20 || ex.required_table.len() < 20 || ex.debug_gate.len() < 5 {
        return Err(format!(
            "implausibly few request types extracted (dispatch {}, role table {}, debug gate {})",
            ex.dispatch.len(),
            ex.required_table.len(),
            ex.debug_gate.len()
        ));
    }
    Ok(ex)
}

// ---------------------------------------------------------------------------------------
// the harness's own classification (from the property text and from reading each handler)
// ---------------------------------------------------------------------------------------

/// Request types that can change runtime state, I/O, configuration, program or pairing data.
pub const MUTATING: &[&str] = &[
    "config.set",            // settings, auth token, control mode, debug switch
    "hmi.descriptor.update", // writes hmi/*.toml under the project, swaps the live descriptor
    "hmi.scaffold.reset",    // rewrites hmi/*.toml
    "hmi.alarm.ack",         // alarm state
    "hmi.write",             // queues a variable write
    "io.write",              // queues an input write
    "io.force",
    "io.unforce",
    "pause",
    "resume",
    "step_in",
    "step_over",
    "step_out",
    "breakpoints.set",
    "breakpoints.clear",
    "breakpoints.clear_all",
    "breakpoints.clear_id",
    "set",
    "var.force",
    "var.unforce",
    "shutdown",
    "restart",
    "bytecode.reload",
    "pair.start",
    "pair.claim",
    "pair.revoke",
];

/// Request types the harness has read and found to be read-only (apart from volatile
/// bookkeeping: HMI trend/alarm cache refresh, debugger variable handles, stop-event queue).
pub const READ_ONLY: &[&str] = &[
    "status", "health", "tasks.stats", "events.tail", "events", "faults", "config.get",
    "historian.query", "historian.alerts", "io.list", "io.read", "hmi.schema.get",
    "hmi.values.get", "hmi.trends.get", "hmi.alarms.get", "hmi.descriptor.get", "debug.state",
    "debug.stops", "debug.stack", "debug.scopes", "debug.variables", "debug.evaluate",
    "debug.breakpoint_locations", "breakpoints.list", "eval", "var.forced", "pair.list",
];

/// Debug-class requests: debugger execution control, breakpoints, debugger inspection and
/// debugger variable access.
pub const DEBUG_CLASS: &[&str] = &[
    "pause", "resume", "step_in", "step_over", "step_out", "breakpoints.set", "breakpoints.clear",
    "breakpoints.clear_all", "breakpoints.clear_id", "breakpoints.list", "eval", "set", "var.force",
    "var.unforce", "var.forced", "debug.state", "debug.stops", "debug.stack", "debug.scopes",
    "debug.variables", "debug.evaluate", "debug.breakpoint_locations",
];

pub fn is_mutating(ty: &str) -> bool {
    MUTATING.contains(&ty)
}
pub fn is_read_only(ty: &str) -> bool {
    READ_ONLY.contains(&ty)
}

// ---------------------------------------------------------------------------------------
// credentials
// ---------------------------------------------------------------------------------------

#[derive(Clone, Copy, Debug, PartialEq, Eq, PartialOrd, Ord, Serialize, Deserialize)]
pub enum Cred {
    None,
    Wrong,
    Empty,
    Admin,
    Viewer,
    Operator,
    Engineer,
    Expired,
    Revoked,
    // garbled variants (generated phase only)
    AdminPadded,
    AdminUpper,
    AdminPrefix,
    EngineerPadded,
    AuthNull,
    AuthNumber,
    AuthArrayOfAdmin,
}

pub const GRID_CREDS: &[Cred] = &[
    Cred::None,
    Cred::Wrong,
    Cred::Empty,
    Cred::Admin,
    Cred::Viewer,
    Cred::Operator,
    Cred::Engineer,
    Cred::Expired,
    Cred::Revoked,
];

pub const GARBLED_CREDS: &[Cred] = &[
    Cred::AdminPadded,
    Cred::AdminUpper,
    Cred::AdminPrefix,
    Cred::EngineerPadded,
    Cred::AuthNull,
    Cred::AuthNumber,
    Cred::AuthArrayOfAdmin,
];

/// Role the credential stands for, by the property's reading.
#[derive(Clone, Copy, Debug, PartialEq, Eq, PartialOrd, Ord)]
pub enum Level {
    /// token configured, credential neither the token nor a live pairing token
    Unauth = 0,
    Viewer = 1,
    Operator = 2,
    Engineer = 3,
    Admin = 4,
}

impl Level {
    pub fn parse(s: &str) -> Option<Level> {
        match s.trim() {
            "viewer" => Some(Level::Viewer),
            "operator" => Some(Level::Operator),
            "engineer" => Some(Level::Engineer),
            "admin" => Some(Level::Admin),
            _ => None,
        }
    }
}

/// `None` = the property makes no statement (no auth token configured and the credential is
/// not a live pairing token: the endpoint trusts its local socket).
/// `pairing_present` = the endpoint has a pairing store at all; without one a string that
/// would be a valid pairing token elsewhere is just a wrong credential.
pub fn level_with(cred: Cred, token_set: bool, pairing_present: bool) -> Option<Level> {
    match cred {
        Cred::Viewer if pairing_present => Some(Level::Viewer),
        Cred::Operator if pairing_present => Some(Level::Operator),
        Cred::Engineer if pairing_present => Some(Level::Engineer),
        Cred::Admin if token_set => Some(Level::Admin),
        _ if token_set => Some(Level::Unauth),
        _ => None,
    }
}

/// Does the request line carry a pairing-store lookup (any string credential other than
/// the configured admin token)?
pub fn touches_pairing_store(cred: Cred, token_set: bool) -> bool {
    match cred {
        Cred::None | Cred::AuthNull | Cred::AuthNumber | Cred::AuthArrayOfAdmin => false,
        Cred::Admin => !token_set,
        _ => true,
    }
}

// ---------------------------------------------------------------------------------------
// parameter schemas. Placeholders ($CODE, $ALARM, $FILEID, $BPLINE, $PAIRID) are filled in
// from the fixture when the line is built.
// ---------------------------------------------------------------------------------------

fn descriptor_update_params() -> J {
    json!({"descriptor": {
        "config": {"theme": {"style": "industrial", "accent": "#22d3ee"}, "layout": {}, "write": {}, "alarm": []},
        "pages": [{
            "id": "overview", "title": "Overview", "icon": "activity", "order": 0, "kind": "dashboard",
            "duration_ms": null, "svg": null, "signals": [],
            "sections": [{"title": "Drive", "span": 12, "widgets": [{
                "widget_type": "gauge", "bind": "Main.zq_canary_speed", "label": "Speed Updated",
                "unit": "rpm", "min": 0, "max": 100, "span": 6, "on_color": null, "off_color": null, "zones": []
            }]}],
            "bindings": []
        }]
    }})
}

/// Strings a handler must not join onto a path. Bounded by the string guard: at most 6
/// parent-like components, absolute only through `{S}` (= the fixture directory inside the
/// scratch moat, filled in when the line is built).
pub const PATHY: &[&str] = &[
    "../zqesc1",
    "../../zqesc2",
    "..\\zqesc3",
    " ../zqesc4 ",
    "{S}/zqabs5",
    "%2e%2e/zqesc6",
    "zqsub/../../zqesc7",
    "../../../../../../zqdeep8",
    "..",
];

/// Requests whose string parameters look like paths: every string member of every valid
/// parameter object replaced by every `PATHY` string, and the nested strings of the HMI
/// descriptor (page id - the handler derives a file name from it - title, icon, kind, svg).
pub fn path_param_cases(cfg: super::fixture::Cfg, types: &[String]) -> Vec<GroupCase> {
    let creds = [Cred::Viewer, Cred::Engineer, Cred::Admin];
    let mut out = Vec::new();
    let mut seen = BTreeSet::new();
    for ty in types {
        for base in valid_params(ty).into_iter().flatten() {
            let J::Object(m) = base else { continue };
            for (k, v) in &m {
                if !v.is_string() {
                    continue;
                }
                for p in PATHY {
                    let mut mm = m.clone();
                    mm.insert(k.clone(), json!(p));
                    let j = J::Object(mm);
                    if seen.insert(format!("{ty}|{j}")) {
                        out.push(grp(cfg, ty, "path_like", Some(j), None, &creds));
                    }
                }
            }
        }
    }
    for p in PATHY {
        let mut d = descriptor_update_params();
        d["descriptor"]["pages"][0]["id"] = json!(p);
        out.push(grp(cfg, "hmi.descriptor.update", "path_like_page_id", Some(d), None, &creds));
        // a second page next to a harmless one
        let mut d = descriptor_update_params();
        let mut second = d["descriptor"]["pages"][0].clone();
        second["id"] = json!(p);
        second["order"] = json!(1);
        d["descriptor"]["pages"].as_array_mut().unwrap().push(second);
        out.push(grp(cfg, "hmi.descriptor.update", "path_like_page_id", Some(d), None, &creds));
    }
    for field in ["title", "icon", "kind", "svg"] {
        for p in &PATHY[..5] {
            let mut d = descriptor_update_params();
            d["descriptor"]["pages"][0][field] = json!(p);
            out.push(grp(cfg, "hmi.descriptor.update", "path_like_page_field", Some(d), None, &creds));
        }
    }
    for p in &PATHY[..5] {
        let mut d = descriptor_update_params();
        d["descriptor"]["config"]["theme"]["style"] = json!(p);
        out.push(grp(cfg, "hmi.descriptor.update", "path_like_page_field", Some(d), None, &creds));
    }
    out
}

/// Valid parameter variants per request type; the first is the one used when a single
/// representative is needed. Chosen so that a served request has a visible effect on the
/// fixture's baseline state wherever the request can have one.
pub fn valid_params(ty: &str) -> Vec<Option<J>> {
    match ty {
        "events.tail" | "events" | "faults" => vec![Some(json!({"limit": 5})), None],
        "hmi.values.get" => vec![None, Some(json!({"ids": [super::fixture::HMI_WRITE_ID]}))],
        "hmi.trends.get" => vec![Some(json!({"duration_ms": 60000, "buckets": 8}))],
        "hmi.alarms.get" => vec![Some(json!({"limit": 10}))],
        "historian.query" => vec![Some(json!({"variable": "Main.zq_canary_speed", "limit": 5}))],
        "historian.alerts" => vec![Some(json!({"limit": 5}))],
        "config.set" => vec![
            Some(json!({"log.level": "debug"})),
            Some(json!({"control.auth_token": "fresh-token-1"})),
            Some(json!({"control.auth_token": null})),
            Some(json!({"control.mode": "$OTHERMODE"})),
            Some(json!({"control.debug_enabled": "$OTHERDEBUG"})),
            Some(json!({"mesh.auth_token": "mesh-secret"})),
            Some(json!({"watchdog.timeout_ms": 1234, "fault.policy": "halt"})),
            Some(json!({"web.listen": "0.0.0.0:8080", "web.enabled": true})),
        ],
        "hmi.descriptor.update" => vec![Some(descriptor_update_params())],
        "hmi.scaffold.reset" => vec![Some(json!({"mode": "reset", "style": "industrial"})), None],
        "hmi.alarm.ack" => vec![Some(json!({"id": "$ALARM"}))],
        "hmi.write" => vec![
            Some(json!({"id": super::fixture::HMI_WRITE_ID, "value": false})),
            Some(json!({"path": super::fixture::HMI_WRITE_ID, "value": false})),
            Some(json!({"target": super::fixture::HMI_WRITE_ID, "value": false})),
        ],
        "io.write" => vec![Some(json!({"address": "%IX0.2", "value": "true"}))],
        "io.force" => vec![Some(json!({"address": "%QX0.2", "value": "true"}))],
        "io.unforce" => vec![Some(json!({"address": "%QX0.1"}))],
        "eval" => vec![Some(json!({"expr": "Main"}))],
        "set" => vec![
            Some(json!({"target": "global:zq_other", "value": "42"})),
            Some(json!({"target": "retain:zq_other", "value": "TRUE"})),
        ],
        "var.force" => vec![
            Some(json!({"target": "global:zq_other", "value": "7"})),
            Some(json!({"target": "instance:1:run", "value": "FALSE"})),
        ],
        "var.unforce" => vec![Some(json!({"target": "global:zq_forced"}))],
        "debug.scopes" => vec![Some(json!({"frame_id": 0}))],
        "debug.variables" => vec![Some(json!({"variables_reference": 1}))],
        "debug.evaluate" => vec![Some(json!({"expression": "1 + 1"}))],
        "debug.breakpoint_locations" => {
            vec![Some(json!({"source": "main.st", "line": 1, "end_line": 40}))]
        }
        "breakpoints.set" => vec![Some(json!({"source": "main.st", "lines": ["$BPLINE"]}))],
        "breakpoints.clear" => vec![Some(json!({"source": "main.st", "lines": []}))],
        "breakpoints.clear_id" => vec![Some(json!({"file_id": "$FILEID"}))],
        "restart" => vec![Some(json!({"mode": "warm"})), Some(json!({"mode": "COLD"}))],
        "bytecode.reload" => vec![Some(json!({"bytes": "U1RCQwAAAAA="}))],
        "pair.claim" => vec![
            Some(json!({"code": "$CODE", "role": "engineer"})),
            Some(json!({"code": "$CODE"})),
        ],
        "pair.revoke" => vec![Some(json!({"id": "$PAIRID"})), Some(json!({"id": "all"}))],
        _ => vec![None],
    }
}

/// Every valid parameter object of every schema - what an unclassified request type found
/// in the sources is probed with (its handler is one of the known ones under another name).
pub fn params_pool() -> Vec<Option<J>> {
    let mut out: Vec<Option<J>> = vec![None];
    let mut seen = BTreeSet::new();
    for ty in MUTATING.iter().chain(READ_ONLY.iter()) {
        for p in valid_params(ty) {
            if let Some(p) = p {
                if seen.insert(p.to_string()) {
                    out.push(Some(p));
                }
            }
        }
    }
    out
}

fn nested(depth: usize, array: bool) -> J {
    let mut v = json!(1);
    for _ in 0..depth {
        v = if array { json!([v]) } else { json!({"a": v}) };
    }
    v
}

const ODD_VALUES: &[&str] = &[
    "null", "true", "0", "-1", "1.5", "1e308", "18446744073709551615", "18446744073709551616",
    "-9223372036854775809", "\"\"", "\" \"", "\"all\"", "\"global:\"", "\"instance:x:y\"",
    "\"instance:4294967295:run\"", "\"%QX0.0\"", "\"%IX99999999999.0\"", "\"%\"", "\"\\u0000\"",
    "\"\\ud83d\\ude00\"", "\"../../etc/passwd\"", "[]", "[1,2,3]", "{}", "{\"a\":{}}", "[\"a\",1]",
    "4294967295", "4294967296", "\"admin\"", "\"ADMIN\"", "\" viewer \"",
];

/// Numeric boundary values (for every numeric parameter of every request type).
pub const NUM_BOUNDS: &[&str] = &[
    "9223372036854775807", "9223372036854775806", "-9223372036854775808", "-9223372036854775807",
    "9223372036854775808", "18446744073709551614", "9223372036854", "9223372036855",
    "9223372036854776", "4611686018427387904", "9007199254740993", "2147483647", "2147483648",
    "-2147483648", "-2147483649", "65535", "65536", "255", "256", "1e19", "-1e19", "1e15",
    "0.5", "-0.0", "1", "2",
];

/// Derive a parameter value of the given shape from a valid one.
pub fn shape_params(ty: &str, shape: &str, r: &mut Reader) -> Option<J> {
    let valid = valid_params(ty);
    let base = valid[r.pick(valid.len())].clone();
    match shape {
        "valid" => base,
        "missing" => None,
        "null" => Some(J::Null),
        "wrong_typed" => {
            let odd: J = if r.chance(1, 3) {
                serde_json::from_str(NUM_BOUNDS[r.pick(NUM_BOUNDS.len())]).unwrap_or(J::Null)
            } else {
                serde_json::from_str(ODD_VALUES[r.pick(ODD_VALUES.len())]).unwrap_or(J::Null)
            };
            match base {
                Some(J::Object(mut m)) if !m.is_empty() => {
                    let keys: Vec<String> = m.keys().cloned().collect();
                    let k = &keys[r.pick(keys.len())];
                    if r.chance(1, 6) {
                        m.remove(k);
                    } else {
                        m.insert(k.clone(), odd);
                    }
                    Some(J::Object(m))
                }
                _ => Some(odd),
            }
        }
        "non_object" => Some(
            serde_json::from_str(ODD_VALUES[r.pick(ODD_VALUES.len())]).unwrap_or(J::Null),
        ),
        "extra_fields" => match base {
            Some(J::Object(mut m)) => {
                m.insert("role".into(), json!("admin"));
                m.insert("auth".into(), json!(super::fixture::ADMIN_TOKEN));
                m.insert("control.auth_token".into(), json!("sneaky"));
                Some(J::Object(m))
            }
            _ => Some(json!({"role": "admin", "control.auth_token": "sneaky", "log.level": "trace"})),
        },
        "path_like" => {
            let p = PATHY[r.pick(PATHY.len())];
            if ty == "hmi.descriptor.update" {
                let mut d = descriptor_update_params();
                let field = ["id", "id", "id", "title", "icon", "kind", "svg"][r.pick(7)];
                d["descriptor"]["pages"][0][field] = json!(p);
                Some(d)
            } else {
                match base {
                    Some(J::Object(mut m)) if !m.is_empty() => {
                        let keys: Vec<String> = m.keys().cloned().collect();
                        let k = keys[r.pick(keys.len())].clone();
                        m.insert(k, json!(p));
                        Some(J::Object(m))
                    }
                    _ => Some(json!({"id": p, "path": p, "source": p, "style": p})),
                }
            }
        }
        "respelt" => match base {
            Some(J::Object(mut m)) if !m.is_empty() => {
                let keys: Vec<String> = m.keys().cloned().collect();
                let k = keys[r.pick(keys.len())].clone();
                let how = r.pick(N_SPELLINGS);
                if r.flag() {
                    // the member name
                    if let Some(v) = m.remove(&k) {
                        m.insert(respell(&k, how), v);
                    }
                    if r.chance(1, 3) {
                        m.insert("log.level".into(), json!("debug"));
                    }
                } else if let Some(J::String(sv)) = m.get(&k).cloned() {
                    let nv = if sv.starts_with('$') { format!("{sv}#{how}") } else { respell(&sv, how) };
                    m.insert(k, J::String(nv));
                } else if let Some(v) = m.remove(&k) {
                    m.insert(respell(&k, how), v);
                }
                Some(J::Object(m))
            }
            other => other,
        },
        "huge" => {
            let big = match r.pick(4) {
                0 => json!("x".repeat(100_000)),
                1 => J::Array((0..20_000).map(|i| json!(i)).collect()),
                2 => json!(1.0e308),
                _ => json!(u64::MAX),
            };
            match base {
                Some(J::Object(mut m)) if !m.is_empty() => {
                    let keys: Vec<String> = m.keys().cloned().collect();
                    let k = keys[r.pick(keys.len())].clone();
                    m.insert(k, big);
                    Some(J::Object(m))
                }
                _ => Some(json!({"limit": big, "ids": big, "id": big})),
            }
        }
        _ => {
            // "nested": within serde_json's recursion limit (the line still parses)
            let d = 8 + r.pick(100);
            let v = nested(d, r.flag());
            match base {
                Some(J::Object(mut m)) if !m.is_empty() && r.flag() => {
                    let keys: Vec<String> = m.keys().cloned().collect();
                    let k = keys[r.pick(keys.len())].clone();
                    m.insert(k, v);
                    Some(J::Object(m))
                }
                _ => Some(v),
            }
        }
    }
}

/// Every (member, odd value) replacement and every member removal of the valid parameter
/// objects of `ty` - the enumerated robustness sweep.
pub fn odd_param_variants(ty: &str) -> Vec<J> {
    let mut out = Vec::new();
    let mut seen = BTreeSet::new();
    let mut bases: Vec<J> = valid_params(ty).into_iter().flatten().collect();
    if ty == "config.set" {
        // every configuration key, not only the ones the grid's variants use
        for key in super::fixture::PROBED_CONFIG_KEYS {
            let mut m = serde_json::Map::new();
            m.insert(key.to_string(), config_value(key));
            bases.push(J::Object(m));
        }
    }
    let mut push = |j: J, out: &mut Vec<J>| {
        if seen.insert(j.to_string()) {
            out.push(j);
        }
    };
    for base in bases {
        let J::Object(m) = base else { continue };
        for (k, cur) in &m {
            let mut without = m.clone();
            without.remove(k);
            push(J::Object(without), &mut out);
            for odd in ODD_VALUES {
                let v: J = serde_json::from_str(odd).unwrap_or(J::Null);
                let mut mm = m.clone();
                mm.insert(k.clone(), v);
                push(J::Object(mm), &mut out);
            }
            // numeric members (and arrays of numbers): every boundary value
            let numeric = cur.is_number()
                || cur.as_array().map(|a| !a.is_empty() && a.iter().all(|x| x.is_number() || x == "$BPLINE")).unwrap_or(false)
                || matches!(cur.as_str(), Some("$BPLINE") | Some("$FILEID"));
            if numeric {
                for b in NUM_BOUNDS {
                    let v: J = serde_json::from_str(b).unwrap_or(J::Null);
                    let mut mm = m.clone();
                    mm.insert(k.clone(), if cur.is_array() { json!([v]) } else { v });
                    push(J::Object(mm), &mut out);
                }
            }
        }
    }
    if ty == "hmi.descriptor.update" {
        for (field, _) in [("order", 0), ("duration_ms", 0)] {
            for b in NUM_BOUNDS {
                let mut d = descriptor_update_params();
                d["descriptor"]["pages"][0][field] = serde_json::from_str(b).unwrap_or(J::Null);
                push(d, &mut out);
            }
        }
        for field in ["min", "max", "span"] {
            for b in NUM_BOUNDS {
                let mut d = descriptor_update_params();
                d["descriptor"]["pages"][0]["sections"][0]["widgets"][0][field] =
                    serde_json::from_str(b).unwrap_or(J::Null);
                push(d, &mut out);
            }
        }
    }
    out
}

// ---------------------------------------------------------------------------------------
// spellings: the role decision and the handler may normalise their input differently
// ---------------------------------------------------------------------------------------

/// A value `handle_config_set` accepts for `key` and that differs from the fixture's baseline.
pub fn config_value(key: &str) -> J {
    match key {
        "log.level" => json!("debug"),
        "watchdog.enabled" | "web.enabled" | "web.tls" | "discovery.enabled" | "discovery.advertise"
        | "mesh.enabled" | "mesh.tls" => json!(true),
        "watchdog.timeout_ms" => json!(1234),
        "watchdog.action" => json!("restart"),
        "fault.policy" => json!("halt"),
        "retain.save_interval_ms" => json!(777),
        "retain.mode" => json!("file"),
        "web.listen" => json!("0.0.0.0:8080"),
        "web.auth" => json!("token"),
        "discovery.service_name" => json!("zz"),
        "discovery.interfaces" | "mesh.publish" => json!(["eth0"]),
        "mesh.listen" => json!("0.0.0.0:1"),
        "mesh.subscribe" => json!({"a": "b"}),
        "mesh.auth_token" => json!("mesh-secret"),
        "control.auth_token" => json!("fresh-token-2"),
        "control.debug_enabled" => json!("$OTHERDEBUG"),
        "control.mode" => json!("$OTHERMODE"),
        _ => json!(true),
    }
}

pub const N_SPELLINGS: usize = 26;

/// Perturbed spellings of a key or string value.
pub fn respell(s: &str, how: usize) -> String {
    let cap = |t: &str| -> String {
        t.split('.')
            .map(|p| {
                let mut c = p.chars();
                match c.next() {
                    Some(f) => f.to_ascii_uppercase().to_string() + c.as_str(),
                    None => String::new(),
                }
            })
            .collect::<Vec<_>>()
            .join(".")
    };
    match how % N_SPELLINGS {
        0 => format!(" {s}"),
        1 => format!("{s} "),
        2 => format!(" {s} "),
        3 => format!("\t{s}"),
        4 => format!("{s}\t"),
        5 => format!("\u{a0}{s}"),
        6 => format!("{s}\u{a0}"),
        7 => format!("{s}\n"),
        8 => format!("\r{s}"),
        9 => s.to_ascii_uppercase(),
        10 => cap(s),
        11 => {
            let mut c = s.chars();
            match c.next() {
                Some(f) => f.to_ascii_uppercase().to_string() + c.as_str(),
                None => String::new(),
            }
        }
        12 => s.replace('.', "\u{ff0e}"),  // fullwidth full stop
        13 => s.replace('o', "\u{43e}"),   // cyrillic o
        14 => s.replace('a', "\u{430}"),   // cyrillic a
        15 => s.replace('.', ".\u{200b}"), // zero width space
        16 => format!("\u{feff}{s}"),
        17 => format!("{s}\u{0}"),
        18 => s.replace('.', "_"),
        19 => s.replace('.', ".."),
        20 => format!("{s}."),
        21 => s.replace('.', " . "),
        22 => s.replace('_', "-"),
        23 => format!("\u{2003}{s}\u{2003}"), // em space
        24 => format!("\u{b}{s}\u{c}"),       // vertical tab / form feed
        _ => s.to_ascii_lowercase(),
    }
}

fn grp(cfg: super::fixture::Cfg, ty: &str, shape: &str, params: Option<J>, raw: Option<String>, creds: &[Cred]) -> GroupCase {
    GroupCase {
        cfg,
        ty: ty.to_string(),
        schema_of: ty.to_string(),
        shape: shape.to_string(),
        params,
        extra: None,
        raw_params: raw,
        creds: creds.to_vec(),
    }
}

pub const ROLE_CREDS: &[Cred] = &[Cred::Viewer, Cred::Operator, Cred::Engineer, Cred::Admin];

/// `config.set` requests that name `key` in every way other than the canonical one.
pub fn config_spelling_cases(cfg: super::fixture::Cfg, key: &str, thorough: bool) -> Vec<GroupCase> {
    let v = config_value(key);
    let mut out = Vec::new();
    let n = if thorough { N_SPELLINGS } else { 7 };
    for how in 0..n {
        let k = respell(key, how);
        if k == key {
            continue;
        }
        let mut m = serde_json::Map::new();
        m.insert(k.clone(), v.clone());
        out.push(grp(cfg, "config.set", "key_spelling", Some(J::Object(m.clone())), None, ROLE_CREDS));
        if thorough && how < 7 {
            // together with a harmless canonical key
            m.insert("log.level".into(), json!("debug"));
            out.push(grp(cfg, "config.set", "key_spelling_mixed", Some(J::Object(m)), None, ROLE_CREDS));
        }
    }
    if !thorough {
        return out;
    }
    let ks = serde_json::to_string(key).unwrap();
    // textual requests are not run through the placeholder filler
    let concrete = match &v {
        J::String(t) if t == "$OTHERMODE" => json!(if cfg.mode_debug { "production" } else { "debug" }),
        J::String(t) if t == "$OTHERDEBUG" => json!(!cfg.debug_enabled),
        other => other.clone(),
    };
    let vs = concrete.to_string();
    let (head, tail) = key.split_once('.').unwrap_or((key, ""));
    // structure instead of spelling
    out.push(grp(cfg, "config.set", "key_nested", Some(json!({head: {tail: v.clone()}})), None, ROLE_CREDS));
    out.push(grp(cfg, "config.set", "key_nested", Some(json!({"params": {key: v.clone()}})), None, ROLE_CREDS));
    out.push(grp(cfg, "config.set", "key_nested", Some(json!({"config": {key: v.clone()}})), None, ROLE_CREDS));
    out.push(grp(cfg, "config.set", "value_array", Some(json!({key: [v.clone()]})), None, ROLE_CREDS));
    out.push(grp(cfg, "config.set", "params_array", Some(json!([[key, v.clone()]])), None, ROLE_CREDS));
    out.push(grp(
        cfg,
        "config.set",
        "params_string",
        Some(json!(format!("{{{ks}:{vs}}}").replace('$', "zq"))),
        None,
        ROLE_CREDS,
    ));
    // duplicated members (what the request parser keeps is its business; gate and handler
    // must agree on it)
    let raws = [
        format!("{{{ks}:{vs},{ks}:{vs}}}"),
        format!("{{\"log.level\":\"debug\",{ks}:{vs},\"log.level\":\"debug\"}}"),
        format!("{{{ks}:null,{ks}:{vs}}}"),
        format!("{{{ks}:{vs},{ks}:null}}"),
        // two `params` members
        format!("{{\"log.level\":\"debug\"}},\"params\":{{{ks}:{vs}}}"),
        format!("{{{ks}:{vs}}},\"params\":{{\"log.level\":\"debug\"}}"),
        // escaped spelling of the same key
        format!("{{\"{}\":{vs}}}", key.replace('.', "\\u002e")),
        format!("{{\"{}\":{vs}}}", key.replacen('c', "\\u0063", 1).replacen('m', "\\u006d", 1)),
    ];
    for raw in raws {
        out.push(grp(cfg, "config.set", "key_duplicated", Some(json!({"raw": raw.clone()})), Some(raw), ROLE_CREDS));
    }
    out
}

/// Every string member value of the valid parameter objects of `ty`, respelt (blanks, case,
/// NBSP, look-alikes): a handler that normalises what the role decision compares verbatim.
pub fn value_spelling_cases(cfg: super::fixture::Cfg, ty: &str) -> Vec<GroupCase> {
    let mut out = Vec::new();
    let mut seen = BTreeSet::new();
    for base in valid_params(ty).into_iter().flatten() {
        let J::Object(m) = base else { continue };
        for (k, v) in &m {
            let J::String(sv) = v else { continue };
            if sv.starts_with('$') && sv != "$CODE" && sv != "$PAIRID" && sv != "$ALARM" && sv != "$OTHERMODE" {
                continue;
            }
            for how in [0usize, 1, 3, 5, 9, 10, 25] {
                // placeholders are respelt after they are filled in: mark them
                let nv = if sv.starts_with('$') {
                    format!("{sv}#{how}")
                } else {
                    respell(sv, how)
                };
                if &nv == sv {
                    continue;
                }
                let mut mm = m.clone();
                mm.insert(k.clone(), J::String(nv));
                let j = J::Object(mm);
                if seen.insert(j.to_string()) {
                    out.push(grp(
                        cfg,
                        ty,
                        "value_spelling",
                        Some(j),
                        None,
                        &[Cred::None, Cred::Viewer, Cred::Operator, Cred::Engineer, Cred::Admin],
                    ));
                }
            }
            // the member name itself
            for how in [0usize, 1, 9] {
                let nk = respell(k, how);
                let mut mm = m.clone();
                if let Some(val) = mm.remove(k) {
                    mm.insert(nk, val);
                }
                let j = J::Object(mm);
                if seen.insert(j.to_string()) {
                    out.push(grp(cfg, ty, "member_spelling", Some(j), None, ROLE_CREDS));
                }
            }
        }
    }
    out
}

pub const SHAPES: &[&str] = &[
    "valid", "missing", "null", "wrong_typed", "non_object", "extra_fields", "huge", "nested", "respelt", "path_like",
];

/// Unknown / garbled / case-varied / padded variants of a request type.
pub fn garble_type(ty: &str, how: usize) -> String {
    match how % 14 {
        0 => ty.to_ascii_uppercase(),
        1 => {
            let mut c = ty.chars();
            match c.next() {
                Some(f) => f.to_ascii_uppercase().to_string() + c.as_str(),
                None => String::new(),
            }
        }
        2 => format!(" {ty}"),
        3 => format!("{ty} "),
        4 => format!("{ty}\t"),
        5 => format!("{ty}\u{0}"),
        6 => format!("{ty}.x"),
        7 => ty.replace('.', "_"),
        8 => ty.replace('.', ".\u{200b}"),
        9 => ty.chars().take(ty.chars().count().saturating_sub(1)).collect(),
        10 => format!("{ty}{ty}"),
        11 => ty.replace('.', ".."),
        12 => format!("\u{feff}{ty}"),
        _ => ty.chars().rev().collect(),
    }
}

pub const UNKNOWN_TYPES: &[&str] = &[
    "", " ", "does.not.exist", "admin", "config", "config.", ".set", "io", "io.*", "*", "pair",
    "pair.approve", "program.download", "bytecode.upload", "__proto__", "constructor", "toString",
    "null", "0", "status;shutdown", "status\nshutdown", "shutdown\u{0}", "\u{1F600}",
];

// ---------------------------------------------------------------------------------------
// cases
// ---------------------------------------------------------------------------------------

/// One request template, swept over a list of credentials under one endpoint configuration.
#[derive(Clone, Debug, Serialize, Deserialize)]
pub struct GroupCase {
    pub cfg: super::fixture::Cfg,
    pub ty: String,
    /// type the parameters were built for (differs from `ty` for garbled/unknown types)
    pub schema_of: String,
    pub shape: String,
    pub params: Option<J>,
    /// extra top-level members of the request object
    #[serde(default)]
    pub extra: Option<J>,
    /// when set, spliced verbatim as the text after `"params":` (duplicate members, two
    /// `params` members ...); `params` is then only the readable summary
    #[serde(default)]
    pub raw_params: Option<String>,
    pub creds: Vec<Cred>,
}

/// One raw line (bytes) under one configuration.
#[derive(Clone, Debug, Serialize, Deserialize)]
pub struct LineCase {
    pub cfg: super::fixture::Cfg,
    pub class: String,
    pub bytes: Vec<u8>,
}

pub fn all_cfgs() -> Vec<super::fixture::Cfg> {
    let mut out = Vec::new();
    for token_set in [true, false] {
        for debug_enabled in [true, false] {
            for mode_debug in [false, true] {
                out.push(super::fixture::Cfg {
                    token_set,
                    debug_enabled,
                    mode_debug,
                    paused: false,
                    variant: 0,
                });
            }
        }
    }
    out
}

pub fn group_from_tape(r: &mut Reader, types: &[String]) -> GroupCase {
    let cfgs = all_cfgs();
    let mut cfg = cfgs[r.pick(cfgs.len())];
    cfg.paused = r.chance(1, 5);
    // weighting: known types dominate, garbled and unknown ones get a fixed share
    let kind = r.weighted(&[12, 3, 1]);
    let base_ty = types[r.pick(types.len())].clone();
    let (ty, schema_of) = match kind {
        0 => (base_ty.clone(), base_ty),
        1 => (garble_type(&base_ty, r.pick(14)), base_ty),
        _ => (UNKNOWN_TYPES[r.pick(UNKNOWN_TYPES.len())].to_string(), base_ty),
    };
    let shape = SHAPES[r.weighted(&[8, 2, 1, 5, 2, 2, 1, 2, 4, 2])];
    let params = shape_params(&schema_of, shape, r);
    let extra = match r.weighted(&[10, 1, 1, 1]) {
        0 => None,
        1 => Some(json!({"role": "admin"})),
        2 => Some(json!({"user": "root", "admin": true, "required_role": "viewer"})),
        _ => Some(json!({"Auth": super::fixture::ADMIN_TOKEN, "token": super::fixture::ADMIN_TOKEN})),
    };
    let mut creds: Vec<Cred> = GRID_CREDS.to_vec();
    let extra_n = r.pick(3);
    for _ in 0..extra_n {
        let c = GARBLED_CREDS[r.pick(GARBLED_CREDS.len())];
        if !creds.contains(&c) {
            creds.push(c);
        }
    }
    GroupCase {
        cfg,
        ty,
        schema_of,
        shape: shape.to_string(),
        params,
        extra,
        raw_params: None,
        creds,
    }
}

fn truncate_at(s: &[u8], at: usize) -> Vec<u8> {
    s[..at.min(s.len())].to_vec()
}

pub fn line_from_tape(r: &mut Reader, types: &[String]) -> LineCase {
    let cfgs = all_cfgs();
    let cfg = cfgs[r.pick(cfgs.len())];
    let ty = &types[r.pick(types.len())];
    let valid = valid_params(ty);
    let params = valid[r.pick(valid.len())].clone();
    let mut obj = serde_json::Map::new();
    obj.insert("id".into(), json!(7));
    obj.insert("type".into(), json!(ty));
    if let Some(p) = params {
        obj.insert("params".into(), p);
    }
    if r.flag() {
        obj.insert("auth".into(), json!(super::fixture::ADMIN_TOKEN));
    }
    // placeholders are not filled in on this path: make them plain words
    let obj: serde_json::Map<String, J> =
        serde_json::from_str(&J::Object(obj).to_string().replace('$', "zq")).unwrap_or_default();
    let mut obj = obj;
    let good = serde_json::to_vec(&J::Object(obj.clone())).unwrap();
    let (class, bytes): (&str, Vec<u8>) = match r.pick(16) {
        0 => ("truncated", truncate_at(&good, 1 + r.pick(good.len().saturating_sub(1).max(1)))),
        1 => ("empty", Vec::new()),
        2 => ("whitespace", b"   \t ".to_vec()),
        3 => (
            "non_object",
            [
                "[]", "123", "\"status\"", "null", "true", "[{\"id\":1,\"type\":\"status\"}]", "1e400",
                "-0", "{}",
            ][r.pick(9)]
            .as_bytes()
            .to_vec(),
        ),
        4 => {
            // id of the wrong kind
            let ids = [
                "-1", "1.5", "18446744073709551616", "1e3", "\"7\"", "null", "[7]", "{}", "true",
                "99999999999999999999999999999999999999",
            ];
            obj.insert("id".into(), serde_json::from_str(ids[r.pick(ids.len())]).unwrap_or(J::Null));
            ("bad_id", serde_json::to_vec(&J::Object(obj)).unwrap())
        }
        5 => {
            obj.remove(["id", "type"][r.pick(2)]);
            ("missing_member", serde_json::to_vec(&J::Object(obj)).unwrap())
        }
        6 => {
            let tys = ["7", "null", "[\"status\"]", "{\"a\":1}", "true"];
            obj.insert("type".into(), serde_json::from_str(tys[r.pick(tys.len())]).unwrap());
            ("bad_type_member", serde_json::to_vec(&J::Object(obj)).unwrap())
        }
        7 => {
            let auths = ["7", "[\"x\"]", "{\"token\":\"x\"}", "true"];
            obj.insert("auth".into(), serde_json::from_str(auths[r.pick(auths.len())]).unwrap());
            ("bad_auth_member", serde_json::to_vec(&J::Object(obj)).unwrap())
        }
        8 => {
            // nesting beyond serde_json's recursion limit
            let d = 200 + r.pick(20_000);
            let mut s = String::from("{\"id\":7,\"type\":\"status\",\"params\":");
            s.push_str(&"[".repeat(d));
            s.push_str(&"]".repeat(d));
            s.push('}');
            ("deep_nesting", s.into_bytes())
        }
        9 => {
            let mut s = good.clone();
            let n = 1 + r.pick(3);
            for _ in 0..n {
                if s.is_empty() {
                    break;
                }
                let at = r.pick(s.len());
                match r.pick(3) {
                    0 => {
                        s.remove(at);
                    }
                    1 => s[at] = b"{}[]\",:\\x0 "[r.pick(11)],
                    _ => s.insert(at, b"{}[]\",:\\x0 "[r.pick(11)]),
                }
            }
            ("byte_mutation", s)
        }
        10 => {
            // invalid UTF-8 inside an otherwise valid request
            let mut s = good.clone();
            let bad: &[&[u8]] = &[b"\xff", b"\xc3\x28", b"\xed\xa0\x80", b"\xf8\x88\x80\x80\x80", b"\x80"];
            let at = r.pick(s.len() + 1);
            let ins = bad[r.pick(bad.len())];
            for (k, b) in ins.iter().enumerate() {
                s.insert(at + k, *b);
            }
            ("invalid_utf8", s)
        }
        11 => {
            let mut s = b"\xef\xbb\xbf".to_vec();
            s.extend_from_slice(&good);
            ("bom_prefix", s)
        }
        12 => {
            let pads = ["\\ud800", "\\uDFFF", "\\u0000", "\\x41", "\\", "\u{0}", "\u{7f}\u{1b}[2J"];
            let s = format!(
                "{{\"id\":7,\"type\":\"status{}\"",
                pads[r.pick(pads.len())]
            );
            ("escape_edge", s.into_bytes())
        }
        13 => {
            let mut s = good.clone();
            s.extend_from_slice(b" trailing");
            ("trailing_garbage", s)
        }
        14 => {
            let mut s = good.clone();
            s.push(b'\r');
            s.extend_from_slice(&good);
            ("embedded_cr", s)
        }
        _ => {
            let n = 200_000 + r.pick(800_000);
            let mut s = Vec::with_capacity(n + 40);
            s.extend_from_slice(b"{\"id\":7,\"type\":\"");
            s.resize(s.len() + n, b'a');
            ("long_line", s)
        }
    };
    LineCase {
        cfg,
        class: class.to_string(),
        bytes,
    }
}
