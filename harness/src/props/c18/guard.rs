//! Containment of the C18 check (same scheme as C19's guard, whose string guard and
//! privilege drop are copied here). The check is meant to be run against BROKEN trees, and
//! some control requests write files below `project_root` (`hmi.descriptor.update` joins the
//! page id of the request onto `project_root/hmi`, `hmi.scaffold.reset` rewrites that
//! directory), so nothing here relies on the code under test confining anything:
//!
//! 1. MOAT - every fixture (project root, pairing store, socket) lives 8 directory levels
//!    below a per-worker scratch top (`top/m1/.../m8/fx<n>/project`: the project root is 10
//!    levels, its `hmi` directory 11 levels below the top); the working directory is moved to
//!    `top/m1/.../m8/cwd/c1`.
//! 2. STRING GUARD - every string of every `params` value passes `check_template` immediately
//!    before the line is sent (generated cases AND replay files): under every rewriting a
//!    buggy normaliser could plausibly apply it contains at most `PARENT_BUDGET` (6)
//!    parent-like components and is absolute only through the `{S}` placeholder (the fixture
//!    directory inside the moat). A totally unconfined handler therefore cannot name anything
//!    above `top/m4`.
//! 3. PRIVILEGE DROP - a root process gives the scratch top to uid/gid 65534 and becomes that
//!    identity for good before the first request; if that is not possible no case runs.
//! 4. MOAT ORACLE - after every request the directories from the scratch top down to the
//!    fixture contain exactly what the check created.

use std::path::{Path, PathBuf};

pub const MOAT_LEVELS: usize = 8;
/// Most parent-like components a string may contain under any hostile rewriting.
pub const PARENT_BUDGET: usize = 6;
pub const NOBODY: u32 = 65534;

pub struct Moat {
    pub top: PathBuf,
    /// `top/m1/.../m8`: parent of the fixtures `fx<n>`, of `pairing-template.json` and of `cwd/c1`
    pub bottom: PathBuf,
}

fn names(dir: &Path) -> Result<Vec<String>, String> {
    let mut v: Vec<String> = std::fs::read_dir(dir)
        .map_err(|e| format!("moat directory {} cannot be read: {e}", dir.display()))?
        .flatten()
        .map(|e| e.file_name().to_string_lossy().to_string())
        .collect();
    v.sort();
    Ok(v)
}

impl Moat {
    pub fn build(top: &Path) -> Result<Moat, String> {
        let _ = std::fs::remove_dir_all(top);
        let mut p = top.to_path_buf();
        for i in 1..=MOAT_LEVELS {
            p = p.join(format!("m{i}"));
        }
        std::fs::create_dir_all(p.join("cwd/c1")).map_err(|e| format!("moat: mkdir: {e}"))?;
        let top = top.canonicalize().map_err(|e| format!("moat: canonicalize: {e}"))?;
        let mut bottom = top.clone();
        for i in 1..=MOAT_LEVELS {
            bottom = bottom.join(format!("m{i}"));
        }
        if top.components().count() < 3 {
            return Err(format!("moat: scratch top {} is too close to the file-system root", top.display()));
        }
        if top.to_string_lossy().contains("..") || !top.is_absolute() {
            return Err(format!("moat: scratch top {} is not a plain absolute path", top.display()));
        }
        Ok(Moat { top, bottom })
    }

    /// Remove what `foreign` reported (only paths strictly below the scratch top that are not
    /// part of the moat itself), so that one escaped write does not taint every later case.
    pub fn purge(&self, fixture: Option<&Path>) {
        let listing = self.foreign(fixture);
        for item in listing.split(", ") {
            let p = Path::new(item);
            if !p.is_absolute() || !p.starts_with(&self.top) || p == self.top || self.bottom.starts_with(p) {
                continue;
            }
            match std::fs::symlink_metadata(p) {
                Ok(m) if m.is_dir() => {
                    let _ = std::fs::remove_dir_all(p);
                }
                Ok(_) => {
                    let _ = std::fs::remove_file(p);
                }
                Err(_) => {}
            }
        }
    }

    pub fn cwd(&self) -> PathBuf {
        self.bottom.join("cwd/c1")
    }

    /// Everything between the scratch top and the fixtures that the check did not create
    /// ("" = intact). `fixture` = the fixture directory in use (its entries are checked too).
    pub fn foreign(&self, fixture: Option<&Path>) -> String {
        let mut found: Vec<String> = Vec::new();
        let mut dir = self.top.clone();
        for i in 1..=MOAT_LEVELS {
            let want = format!("m{i}");
            match names(&dir) {
                Ok(got) => {
                    for n in got {
                        if n != want {
                            found.push(dir.join(n).display().to_string());
                        }
                    }
                }
                Err(e) => found.push(e),
            }
            dir = dir.join(want);
        }
        match names(&dir) {
            Ok(got) => {
                for n in got {
                    let is_fx = n.strip_prefix("fx").map(|r| !r.is_empty() && r.bytes().all(|b| b.is_ascii_digit())).unwrap_or(false);
                    if !(is_fx || n == "cwd" || n == "pairing-template.json") {
                        found.push(dir.join(n).display().to_string());
                    }
                }
            }
            Err(e) => found.push(e),
        }
        match (names(&dir.join("cwd")), names(&dir.join("cwd/c1"))) {
            (Ok(a), Ok(b)) => {
                if a != ["c1".to_string()] || !b.is_empty() {
                    found.push(format!("working-directory anchor modified: cwd={a:?} cwd/c1={b:?}"));
                }
            }
            (a, b) => found.push(format!("working-directory anchor unreadable: {a:?} {b:?}")),
        }
        if let Some(fx) = fixture {
            match names(fx) {
                Ok(got) => {
                    for n in got {
                        if !matches!(n.as_str(), "project" | "pairing.json" | "ctl.sock") {
                            found.push(fx.join(n).display().to_string());
                        }
                    }
                }
                Err(e) => found.push(e),
            }
        }
        found.join(", ")
    }
}

fn hex(b: u8) -> Option<u8> {
    match b {
        b'0'..=b'9' => Some(b - b'0'),
        b'a'..=b'f' => Some(b - b'a' + 10),
        b'A'..=b'F' => Some(b - b'A' + 10),
        _ => None,
    }
}

/// One round of percent decoding on bytes (invalid escapes are kept).
fn percent_decode(input: &[u8]) -> Vec<u8> {
    let mut out = Vec::with_capacity(input.len());
    let mut i = 0;
    while i < input.len() {
        if input[i] == b'%' && i + 2 < input.len() {
            if let (Some(h), Some(l)) = (hex(input[i + 1]), hex(input[i + 2])) {
                out.push(h * 16 + l);
                i += 3;
                continue;
            }
        }
        out.push(input[i]);
        i += 1;
    }
    out
}

/// Bytes -> chars the way the most permissive decoder would: overlong two-byte forms of ASCII
/// (`C0 AE` = '.', `C0 AF` = '/', `C1 9C` = '\') are accepted, invalid bytes become U+FFFD.
fn lenient_utf8(bytes: &[u8]) -> String {
    let mut out = String::new();
    let mut i = 0;
    while i < bytes.len() {
        let b = bytes[i];
        if (b == 0xC0 || b == 0xC1) && i + 1 < bytes.len() && bytes[i + 1] & 0xC0 == 0x80 {
            let c = ((b as u32 & 0x1F) << 6) | (bytes[i + 1] as u32 & 0x3F);
            out.push(char::from_u32(c).unwrap_or('\u{fffd}'));
            i += 2;
            continue;
        }
        // longest valid UTF-8 sequence starting here
        let mut taken = false;
        for len in (1..=4).rev() {
            if i + len <= bytes.len() {
                if let Ok(s) = std::str::from_utf8(&bytes[i..i + len]) {
                    if s.chars().count() == 1 {
                        out.push_str(s);
                        i += len;
                        taken = true;
                        break;
                    }
                }
            }
        }
        if !taken {
            out.push('\u{fffd}');
            i += 1;
        }
    }
    out
}

/// Map every separator / dot look-alike to the real thing.
fn fold_lookalikes(s: &str) -> String {
    let mut out = String::with_capacity(s.len());
    for c in s.chars() {
        match c {
            '\\' | '\u{2215}' | '\u{ff0f}' | '\u{29f8}' | '\u{2044}' | '\u{ff3c}' | '\u{29f5}'
            | '\u{2216}' | '\u{fe68}' | '\u{29f9}' | '\u{1735}' | '\u{2571}' | '\u{2572}' => out.push('/'),
            '\u{ff0e}' | '\u{2024}' | '\u{3002}' | '\u{ff61}' | '\u{fe52}' | '\u{0701}' | '\u{0702}'
            | '\u{a4f8}' | '\u{2e3c}' | '\u{00b7}' | '\u{2219}' | '\u{22c5}' | '\u{30fb}' => out.push('.'),
            '\u{2025}' | '\u{fe30}' => out.push_str(".."),
            '\u{2026}' | '\u{22ef}' | '\u{fe19}' => out.push_str("..."),
            c => out.push(c),
        }
    }
    out
}

/// Parent-like weight of one component: everything that is not a letter or a digit is dropped
/// (blanks, control characters, NUL, `;`, `~`, quotes ...); what remains must be dots only.
fn component_weight(c: &str) -> usize {
    let mut dots = 0usize;
    for ch in c.chars() {
        if ch == '.' {
            dots += 1;
        } else if ch.is_alphanumeric() || ch == '_' || ch == '-' {
            return 0;
        }
    }
    if dots >= 2 {
        dots / 2
    } else {
        0
    }
}

struct Hostile {
    parents: usize,
    /// the string could be read as absolute / home- / scheme- / variable-relative
    rooted: bool,
}

fn judge_variant(v: &str) -> Hostile {
    let folded = fold_lookalikes(v);
    // (a) components as they stand, (b) blanks and control characters as extra separators,
    // (c) truncated at the first NUL
    let mut parents = 0usize;
    let count = |s: &str| -> usize { s.split('/').map(component_weight).sum() };
    parents = parents.max(count(&folded));
    let blanks_split: String = folded
        .chars()
        .map(|c| if c.is_whitespace() || c.is_control() { '/' } else { c })
        .collect();
    parents = parents.max(count(&blanks_split));
    if let Some(cut) = folded.find('\u{0}') {
        parents = parents.max(count(&folded[..cut]));
    }
    // leading position: skip what a trimming / cleaning step could remove
    let lead: String = folded
        .chars()
        .filter(|c| !c.is_whitespace() && !c.is_control() && *c != '"' && *c != '\'')
        .collect();
    let lower = lead.to_lowercase();
    let rooted = lead.starts_with('/')
        || lead.starts_with('~')
        || lead.contains('$')
        || lower.contains(":/")
        || lower.starts_with("file:")
        || lead.contains('`');
    Hostile { parents, rooted }
}

/// Worst case over 0..=3 rounds of percent decoding.
fn judge(rest: &str) -> Hostile {
    let mut worst = Hostile { parents: 0, rooted: false };
    let mut bytes = rest.as_bytes().to_vec();
    for _ in 0..4 {
        let text = lenient_utf8(&bytes);
        let h = judge_variant(&text);
        worst.parents = worst.parents.max(h.parents);
        worst.rooted |= h.rooted;
        let next = percent_decode(&bytes);
        if next == bytes {
            break;
        }
        bytes = next;
    }
    worst
}

/// Is `template` (with `{S}` = absolute path of a fixture root inside the moat, allowed only
/// as the leading token) safe to hand to an arbitrary implementation?
pub fn check_template(template: &str) -> Result<(), String> {
    let t = template.trim_start();
    let (abs, rest) = match t.strip_prefix("{S}") {
        Some(r) => (true, r),
        None => (false, template),
    };
    if rest.contains("{S}") {
        return Err("`{S}` is only allowed as the leading token".into());
    }
    let h = judge(rest);
    if h.parents > PARENT_BUDGET {
        return Err(format!(
            "{} parent-like components under hostile normalisation (budget {PARENT_BUDGET})",
            h.parents
        ));
    }
    if abs {
        // what follows {S} must begin a new component, otherwise the string names a sibling
        if !(rest.is_empty() || rest.starts_with('/')) {
            return Err("`{S}` must be followed by '/' or the end of the string".into());
        }
        if rest.contains('$') || rest.contains('`') {
            return Err("variable / command expansion characters".into());
        }
    } else if h.rooted {
        return Err("could be read as an absolute, home-, variable- or scheme-relative path".into());
    }
    Ok(())
}

/// Make a generated string safe: hostile leading parts are cut from the front, surplus
/// parent-like components from the end. Terminates because the empty string is safe.
#[allow(dead_code)]
pub fn sanitize(template: String) -> String {
    let mut t = template;
    loop {
        match check_template(&t) {
            Ok(()) => return t,
            Err(why) => {
                if why.contains("parent-like") {
                    if t.len() > 256 {
                        let mut cut = t.len() / 2;
                        while !t.is_char_boundary(cut) {
                            cut -= 1;
                        }
                        t.truncate(cut);
                    } else {
                        t.pop();
                    }
                } else if t.trim_start().starts_with("{S}") {
                    // malformed use of the placeholder: keep what follows it, relative
                    let cut = t.find("{S}").unwrap() + 3;
                    t = t[cut..].trim_start_matches(['/', '\\']).replace("{S}", "S");
                } else if t.contains("{S}") {
                    t = t.replace("{S}", "S");
                } else {
                    // rooted: drop the first character (and any expansion characters)
                    t = t.replace(['$', '`'], "");
                    if check_template(&t).is_err() {
                        let mut it = t.chars();
                        it.next();
                        t = it.as_str().to_string();
                    }
                }
            }
        }
    }
}

fn chown_tree(path: &Path, uid: u32, gid: u32) -> Result<(), String> {
    std::os::unix::fs::lchown(path, Some(uid), Some(gid)).map_err(|e| format!("chown {}: {e}", path.display()))?;
    let meta = std::fs::symlink_metadata(path).map_err(|e| format!("lstat {}: {e}", path.display()))?;
    if meta.is_dir() {
        for e in std::fs::read_dir(path).map_err(|e| format!("read_dir {}: {e}", path.display()))?.flatten() {
            chown_tree(&e.path(), uid, gid)?;
        }
    }
    Ok(())
}

/// If the process is root: hand `scratch` to nobody, open `out_dir` for writing by anybody
/// and become nobody for good. Ok(true) = dropped, Ok(false) = was not root.
pub fn drop_privileges(scratch: &Path, out_dir: &Path) -> Result<bool, String> {
    use std::os::unix::fs::PermissionsExt;
    // SAFETY: plain libc identity calls without pointers (setgroups gets a null list of length 0).
    unsafe {
        if libc::geteuid() != 0 {
            return Ok(false);
        }
        chown_tree(scratch, NOBODY, NOBODY)?;
        std::fs::set_permissions(out_dir, std::fs::Permissions::from_mode(0o777))
            .map_err(|e| format!("chmod {}: {e}", out_dir.display()))?;
        if libc::setgroups(0, std::ptr::null()) != 0 {
            return Err(format!("setgroups(0): {}", std::io::Error::last_os_error()));
        }
        if libc::setgid(NOBODY) != 0 {
            return Err(format!("setgid({NOBODY}): {}", std::io::Error::last_os_error()));
        }
        if libc::setuid(NOBODY) != 0 {
            return Err(format!("setuid({NOBODY}): {}", std::io::Error::last_os_error()));
        }
        if libc::geteuid() != NOBODY || libc::getuid() != NOBODY || libc::getegid() != NOBODY || libc::getgid() != NOBODY {
            return Err("identity after the drop is not 65534:65534".into());
        }
        if libc::setuid(0) == 0 || libc::seteuid(0) == 0 || libc::geteuid() == 0 {
            return Err("root could be regained after the drop".into());
        }
    }
    Ok(true)
}

#[cfg(test)]
mod tests {
    use super::*;

    #[test]
    fn counts_every_spelling() {
        for s in [
            "../../../../../../../x",
            "..\\..\\..\\..\\..\\..\\..\\x",
            "%2e%2e/%2E%2E/%2e%2e/%2e%2e/%2e%2e/%2e%2e/%2e%2e",
            "%252e%252e%252f%252e%252e%252f%252e%252e%252f..%2f..%2f..%2f../..",
            "..;/..;/..;/..;/..;/..;/..;/etc",
        ] {
            assert!(check_template(s).is_err(), "{s}");
            assert!(check_template(&sanitize(s.to_string())).is_ok());
        }
        for s in ["/", "\\", "/etc", " /etc", "%2fetc", "~/x", "$HOME/x", "file:///etc", "{S}x", "a/{S}"] {
            assert!(check_template(s).is_err(), "{s}");
            assert!(check_template(&sanitize(s.to_string())).is_ok());
        }
        for s in ["", ".", "..", "../../../../../../x", "{S}", "{S}/x", "a b", "%QX0.1", "%IX99999999999.0", "0.0.0.0:8080", "global:zq_other"] {
            assert!(check_template(s).is_ok(), "{s}");
        }
    }
}
