//! C18 fixture: a real `ControlServer` on a unix socket in front of a constructed
//! `ControlState`, a line client, and the state probe.

use std::collections::{BTreeSet, VecDeque};
use std::io::{BufRead, BufReader, Write};
use std::os::unix::net::UnixStream;
use std::path::{Path, PathBuf};
use std::sync::atomic::{AtomicBool, AtomicU64, Ordering};
use std::sync::{Arc, Mutex};
use std::time::Duration;

use indexmap::IndexMap;
use serde::{Deserialize, Serialize};
use smol_str::SmolStr;
use trust_runtime::config::ControlMode;
use trust_runtime::control::{
    ControlEndpoint, ControlServer, ControlState, HmiRuntimeDescriptor, SourceFile, SourceRegistry,
};
use trust_runtime::debug::{DebugBreakpoint, DebugSnapshot, DebugVariableHandles, RuntimeEvent};
use trust_runtime::error::RuntimeError;
use trust_runtime::harness::TestHarness;
use trust_runtime::io::IoAddress;
use trust_runtime::metrics::RuntimeMetrics;
use trust_runtime::scheduler::{ResourceCommand, ResourceControl, StdClock};
use trust_runtime::security::AccessRole;
use trust_runtime::settings::{
    BaseSettings, DiscoverySettings, MeshSettings, RuntimeSettings, SimulationSettings, WebSettings,
};
use trust_runtime::value::Value;
use trust_runtime::watchdog::{FaultPolicy, RetainMode, WatchdogPolicy};
use trust_runtime::web::pairing::PairingStore;

/// The program behind the endpoint. Names carry a canary so that leaked runtime data is
/// recognisable in replies.
pub const SOURCE: &str = r#"
PROGRAM Main
VAR
    run : BOOL := TRUE;
    // @hmi(min=0, max=100)
    zq_canary_speed : REAL := 120.0;
    zq_canary_count : DINT := DINT#31337;
    in1 AT %IX0.0 : BOOL;
    out1 AT %QX0.0 : BOOL;
END_VAR
zq_canary_count := zq_canary_count + DINT#0;
IF run THEN
    out1 := in1;
END_IF;
zq_canary_speed := zq_canary_speed + REAL#0.0;
END_PROGRAM
"#;

pub const RESOURCE_NAME: &str = "ZQRES";
pub const ADMIN_TOKEN: &str = "adm-7f3c9e2b41d8a6c05e17";
pub const HMI_WRITE_ID: &str = "resource/ZQRES/program/Main/field/run";
/// Substrings that only occur in runtime data (never in a request unless the request
/// itself carried them).
/// configuration keys that have a probe part `cfg:<key>` of their own
pub const PROBED_CONFIG_KEYS: &[&str] = &[
    "log.level", "watchdog.enabled", "watchdog.timeout_ms", "watchdog.action", "fault.policy",
    "retain.mode", "retain.save_interval_ms", "web.enabled", "web.listen", "web.auth", "web.tls",
    "discovery.enabled", "discovery.service_name", "discovery.advertise", "discovery.interfaces",
    "mesh.enabled", "mesh.listen", "mesh.tls", "mesh.auth_token", "mesh.publish", "mesh.subscribe",
    "control.auth_token", "control.mode", "control.debug_enabled",
];
pub const CANARIES: &[&str] = &["zq_canary", "ZQRES", "31337", "zqfault", "zqtask"];

#[derive(Clone, Copy, Debug, PartialEq, Eq, Serialize, Deserialize)]
pub struct Cfg {
    pub token_set: bool,
    pub debug_enabled: bool,
    /// true = ControlMode::Debug, false = Production
    pub mode_debug: bool,
    /// the debugger is already paused when the request arrives
    #[serde(default)]
    pub paused: bool,
    /// which optional parts of `ControlState` are present (see `VARIANTS`)
    #[serde(default)]
    pub variant: u8,
}

/// Optional parts of `ControlState`. Variant 0 is the standard fixture (pairing store,
/// project root and I/O snapshot present; audit channel and historian absent).
pub const VARIANTS: &[(u8, &str)] = &[
    (0, "standard"),
    (1, "pairing=None"),
    (2, "project_root=None"),
    (3, "audit_tx=Some"),
    (4, "io_snapshot=None"),
    (5, "historian=Some"),
    (6, "pairing=None project_root=None io_snapshot=None"),
];

impl Cfg {
    pub fn pairing_present(&self) -> bool {
        !matches!(self.variant, 1 | 6)
    }
    pub fn project_present(&self) -> bool {
        !matches!(self.variant, 2 | 6)
    }
    pub fn io_snapshot_present(&self) -> bool {
        !matches!(self.variant, 4 | 6)
    }
}

impl Cfg {
    pub fn key(&self) -> String {
        format!(
            "tok={} dbg={} mode={}{}",
            self.token_set as u8,
            self.debug_enabled as u8,
            if self.mode_debug { "debug" } else { "production" },
            if self.paused { " paused" } else { "" }
        ) + &match self.variant {
            0 => String::new(),
            v => format!(
                " [{}]",
                VARIANTS.iter().find(|(n, _)| *n == v).map(|(_, t)| *t).unwrap_or("?")
            ),
        }
    }
}

/// Pairing tokens minted once per worker through the public pairing API.
#[derive(Clone, Debug)]
pub struct Tokens {
    pub viewer: String,
    pub operator: String,
    pub engineer: String,
    /// engineer token whose expiry lies between `t_valid` and `t_req`
    pub expired: String,
    /// engineer token, revoked
    pub revoked: String,
    #[allow(dead_code)]
    pub id_viewer: String,
    pub id_engineer: String,
}

pub struct Template {
    pub base: PathBuf,
    pub pairing_file: PathBuf,
    pub tokens: Tokens,
    /// clock while the fixture is set up (every token valid)
    pub t_valid: u64,
    /// clock while requests are served ("expired" token has run out, pending code has not)
    pub t_req: u64,
}

fn clock_fn(clock: &Arc<AtomicU64>) -> Arc<dyn Fn() -> u64 + Send + Sync> {
    let c = clock.clone();
    Arc::new(move || c.load(Ordering::SeqCst))
}

impl Template {
    pub fn build(base: PathBuf) -> Result<Template, String> {
        // `base` is the bottom of the scratch moat (built and handed to the unprivileged
        // identity by the caller)
        std::fs::create_dir_all(&base).map_err(|e| format!("create {}: {e}", base.display()))?;
        let pairing_file = base.join("pairing-template.json");
        let clock = Arc::new(AtomicU64::new(1_000));
        let store = PairingStore::with_clock(pairing_file.clone(), clock_fn(&clock));
        let mint = |at: u64, role: AccessRole| -> Result<String, String> {
            clock.store(at, Ordering::SeqCst);
            let code = store.start_pairing();
            store
                .claim(&code.code, Some(role))
                .ok_or_else(|| "PairingStore::claim refused a fresh code".to_string())
        };
        // token TTL is 30 days = 2_592_000 s against the injected clock
        let expired = mint(1_000, AccessRole::Engineer)?;
        let expiry = store
            .list()
            .first()
            .map(|t| t.expires_at)
            .ok_or("pairing list empty after claim")?;
        if expiry < 100_000 {
            return Err(format!("unexpected pairing token expiry {expiry}"));
        }
        let t0 = expiry - 1_000;
        let viewer = mint(t0, AccessRole::Viewer)?;
        let operator = mint(t0 + 1, AccessRole::Operator)?;
        let engineer = mint(t0 + 2, AccessRole::Engineer)?;
        let revoked = mint(t0 + 3, AccessRole::Engineer)?;
        if !store.revoke(&format!("pair-{}", t0 + 3)) {
            return Err("PairingStore::revoke did not find the token id".into());
        }
        // (no check of validate_with_role here: what the store answers for these tokens is
        // part of the property and is judged through the endpoint)
        if !pairing_file.is_file() {
            return Err("pairing store did not persist its tokens".into());
        }
        Ok(Template {
            base,
            pairing_file,
            tokens: Tokens {
                viewer,
                operator,
                engineer,
                expired,
                revoked,
                id_viewer: format!("pair-{t0}"),
                id_engineer: format!("pair-{}", t0 + 2),
            },
            t_valid: expiry - 100,
            t_req: expiry + 1,
        })
    }
}

fn runtime_settings() -> RuntimeSettings {
    RuntimeSettings::new(
        BaseSettings {
            log_level: SmolStr::new("info"),
            watchdog: WatchdogPolicy::default(),
            fault_policy: FaultPolicy::SafeHalt,
            retain_mode: RetainMode::None,
            retain_save_interval: None,
        },
        WebSettings {
            enabled: false,
            listen: SmolStr::new("127.0.0.1:0"),
            auth: SmolStr::new("local"),
            tls: false,
        },
        DiscoverySettings {
            enabled: false,
            service_name: SmolStr::new("truST"),
            advertise: false,
            interfaces: Vec::new(),
        },
        MeshSettings {
            enabled: false,
            listen: SmolStr::new("127.0.0.1:0"),
            tls: false,
            auth_token: None,
            publish: Vec::new(),
            subscribe: IndexMap::new(),
        },
        SimulationSettings {
            enabled: false,
            time_scale: 1,
            mode_label: SmolStr::new("production"),
            warning: SmolStr::new(""),
        },
    )
}

/// Open sockets of this process: (fd, "socket:[inode]").
fn open_sockets() -> BTreeSet<(i32, String)> {
    let mut out = BTreeSet::new();
    if let Ok(rd) = std::fs::read_dir("/proc/self/fd") {
        for e in rd.flatten() {
            if let Some(n) = e.file_name().to_str().and_then(|s| s.parse::<i32>().ok()) {
                if let Ok(target) = std::fs::read_link(e.path()) {
                    let t = target.to_string_lossy().to_string();
                    if t.starts_with("socket:") {
                        out.insert((n, t));
                    }
                }
            }
        }
    }
    out
}

/// One part of the observable state; compared before/after a request.
#[derive(Clone, Debug, PartialEq, Eq)]
pub struct ProbeState {
    pub parts: Vec<(&'static str, String)>,
}

impl ProbeState {
    pub fn diff(&self, other: &ProbeState) -> Vec<&'static str> {
        let mut out = Vec::new();
        for (i, (name, v)) in self.parts.iter().enumerate() {
            match other.parts.get(i) {
                Some((_, w)) if v == w => {}
                _ => out.push(*name),
            }
        }
        out
    }
    pub fn part(&self, name: &str) -> &str {
        self.parts
            .iter()
            .find(|(n, _)| *n == name)
            .map(|(_, v)| v.as_str())
            .unwrap_or("")
    }
}

/// Slice of a derived-Debug rendering between two field markers.
fn segment<'a>(text: &'a str, from: &str, to: &str) -> Option<&'a str> {
    let s = text.find(from)? + from.len();
    let e = text[s..].find(to)? + s;
    Some(&text[s..e])
}

#[derive(Debug)]
pub enum Reply {
    Line(String),
    /// connection closed without a reply line
    Closed,
    /// nothing within the bound, connection still open (infrastructure, not a verdict)
    Timeout,
}

pub struct Fixture {
    pub cfg: Cfg,
    pub dir: PathBuf,
    pub project: PathBuf,
    pub state: Arc<ControlState>,
    pub store: Arc<PairingStore>,
    pub clock: Arc<AtomicU64>,
    pub t_req: u64,
    pub commands: Arc<Mutex<Vec<String>>>,
    pub pending_code: String,
    pub alarm_id: String,
    pub file_id: u32,
    pub bp_line_free: u32,
    /// a request carrying a pairing-validated token has been served (the expiring token
    /// is pruned by the first such request)
    pub expiry_consumed: bool,
    pub requests_served: u64,
    listener_fd: Option<i32>,
    writer: Option<UnixStream>,
    reader: Option<BufReader<UnixStream>>,
    responder: Option<std::thread::JoinHandle<()>>,
    fence: ResourceControl<StdClock>,
    /// receiving end of the audit channel (variant 3); kept so that sends succeed
    #[allow(dead_code)]
    audit_rx: Option<std::sync::mpsc::Receiver<trust_runtime::control::ControlAuditEvent>>,
    pub sock: PathBuf,
    /// the command record could not be brought up to date (infrastructure trouble)
    pub fence_failed: std::cell::Cell<bool>,
    pub debug_layout_ok: bool,
    pub has_debug_snapshot: bool,
}

impl Fixture {
    pub fn new(cfg: Cfg, tpl: &Template, seq: u64) -> Result<Fixture, String> {
        let dir = tpl.base.join(format!("fx{seq}"));
        let project = dir.join("project");
        std::fs::create_dir_all(project.join("src")).map_err(|e| format!("mkdir: {e}"))?;
        std::fs::write(
            project.join("hmi.toml"),
            format!("[write]\nenabled = true\nallow = [\"{HMI_WRITE_ID}\"]\n"),
        )
        .map_err(|e| format!("write hmi.toml: {e}"))?;
        std::fs::write(project.join("src/main.st"), SOURCE).map_err(|e| format!("write: {e}"))?;
        let pairing_path = dir.join("pairing.json");
        std::fs::copy(&tpl.pairing_file, &pairing_path).map_err(|e| format!("copy pairing: {e}"))?;

        let mut harness =
            TestHarness::from_source(SOURCE).map_err(|e| format!("fixture program: {e:?}"))?;
        let debug = harness.runtime_mut().enable_debug();
        let cycle = harness.cycle();
        if !cycle.errors.is_empty() {
            return Err(format!("fixture program faulted: {:?}", cycle.errors));
        }
        let snapshot = DebugSnapshot {
            storage: harness.runtime().storage().clone(),
            now: harness.runtime().current_time(),
        };
        let has_debug_snapshot = debug.snapshot().is_some();
        let metadata = harness.runtime().metadata_snapshot();
        let mut file_id = None;
        for id in 0..4u32 {
            if metadata
                .statement_locations(id)
                .map(|l| !l.is_empty())
                .unwrap_or(false)
            {
                file_id = Some(id);
                break;
            }
        }
        let file_id = file_id.ok_or("no statement locations for the fixture program")?;
        let locations: Vec<_> = metadata.statement_locations(file_id).unwrap().to_vec();

        // baseline debugger state, so that clear/unforce/resume requests have something to undo
        debug.set_breakpoints_for_file(file_id, vec![DebugBreakpoint::new(locations[0])]);
        debug.force_global("zq_forced", Value::LInt(1));
        if let Ok(addr) = IoAddress::parse("%QX0.1") {
            debug.force_io(addr, Value::Bool(true));
        }
        if let Ok(addr) = IoAddress::parse("%IX0.1") {
            debug.enqueue_io_write(addr, Value::Bool(true));
        }
        debug.enqueue_global_write("zq_pending", Value::LInt(5));
        if cfg.paused {
            debug.pause();
        }
        let (l0, _) = trust_runtime::debug::location_to_line_col(SOURCE, &locations[0]);
        let (l_last, _) =
            trust_runtime::debug::location_to_line_col(SOURCE, locations.last().unwrap());
        let bp_line_free = if l_last != l0 { l_last } else { l0 + 1 };

        let (resource, cmd_rx) = ResourceControl::stub(StdClock::new());
        let commands = Arc::new(Mutex::new(Vec::new()));
        let rec = commands.clone();
        let snap_for_thread = snapshot.clone();
        let responder = std::thread::Builder::new()
            .name("c18-resource".into())
            .spawn(move || {
                while let Ok(command) = cmd_rx.recv() {
                    match command {
                        ResourceCommand::Snapshot { respond_to } => {
                            // read-only: not recorded
                            let _ = respond_to.send(snap_for_thread.clone());
                        }
                        ResourceCommand::MeshSnapshot { respond_to, .. } => {
                            let _ = respond_to.send(IndexMap::new());
                        }
                        ResourceCommand::ReloadBytecode { bytes, respond_to } => {
                            rec.lock().unwrap().push(format!("ReloadBytecode({} bytes)", bytes.len()));
                            let _ = respond_to
                                .send(Err(RuntimeError::ControlError(SmolStr::new("unsupported"))));
                        }
                        other => {
                            let text = format!("{other:?}");
                            rec.lock().unwrap().push(text);
                        }
                    }
                }
            })
            .map_err(|e| format!("spawn responder: {e}"))?;

        let sources = SourceRegistry::new(vec![SourceFile {
            id: file_id,
            path: PathBuf::from("main.st"),
            text: SOURCE.to_string(),
        }]);
        let descriptor = HmiRuntimeDescriptor::from_sources(
            if cfg.project_present() { Some(project.as_path()) } else { None },
            &sources,
        );

        // raise the out-of-range alarm so that hmi.alarm.ack has something to acknowledge
        let mut live = trust_runtime::hmi::HmiLiveState::default();
        {
            let schema = trust_runtime::hmi::build_schema(
                RESOURCE_NAME,
                &metadata,
                Some(&snapshot),
                true,
                Some(&descriptor.customization),
            );
            let values =
                trust_runtime::hmi::build_values(RESOURCE_NAME, &metadata, Some(&snapshot), true, None);
            trust_runtime::hmi::update_live_state(&mut live, &schema, &values);
        }
        let alarm_id = trust_runtime::hmi::build_alarm_view(&live, 10)
            .active
            .first()
            .map(|a| a.id.clone())
            .unwrap_or_default();

        let clock = Arc::new(AtomicU64::new(tpl.t_valid));
        let store = Arc::new(PairingStore::with_clock(pairing_path, clock_fn(&clock)));
        let pending_code = store.start_pairing().code;

        let mut events = VecDeque::new();
        events.push_back(RuntimeEvent::TaskOverrun {
            name: SmolStr::new("zqtask"),
            missed: 1,
            time: trust_runtime::value::Duration::from_millis(5),
        });
        events.push_back(RuntimeEvent::Fault {
            error: "zqfault".to_string(),
            time: trust_runtime::value::Duration::from_millis(6),
        });

        let io_snapshot = harness.runtime().io().snapshot();
        let fence = resource.clone();
        let (audit_tx, audit_rx) = if cfg.variant == 3 {
            let (tx, rx) = std::sync::mpsc::channel();
            (Some(tx), Some(rx))
        } else {
            (None, None)
        };
        let historian = if cfg.variant == 5 {
            let h = trust_runtime::historian::HistorianService::new(
                trust_runtime::historian::HistorianConfig {
                    enabled: true,
                    sample_interval_ms: 1_000,
                    mode: trust_runtime::historian::RecordingMode::All,
                    include: Vec::new(),
                    history_path: project.join("hist/history.jsonl"),
                    max_entries: 100,
                    prometheus_enabled: false,
                    prometheus_path: SmolStr::new("/metrics"),
                    alerts: Vec::new(),
                },
                None,
            )
            .map_err(|e| format!("historian: {e}"))?;
            let _ = h.capture_snapshot_at(&snapshot, 1_000);
            Some(h)
        } else {
            None
        };
        let state = Arc::new(ControlState {
            debug,
            resource,
            metadata: Arc::new(Mutex::new(metadata)),
            sources,
            io_snapshot: Arc::new(Mutex::new(if cfg.io_snapshot_present() { Some(io_snapshot) } else { None })),
            pending_restart: Arc::new(Mutex::new(None)),
            auth_token: Arc::new(Mutex::new(if cfg.token_set {
                Some(SmolStr::new(ADMIN_TOKEN))
            } else {
                None
            })),
            control_requires_auth: false,
            control_mode: Arc::new(Mutex::new(if cfg.mode_debug {
                ControlMode::Debug
            } else {
                ControlMode::Production
            })),
            audit_tx,
            metrics: Arc::new(Mutex::new(RuntimeMetrics::default())),
            events: Arc::new(Mutex::new(events)),
            settings: Arc::new(Mutex::new(runtime_settings())),
            project_root: if cfg.project_present() { Some(project.clone()) } else { None },
            resource_name: SmolStr::new(RESOURCE_NAME),
            io_health: Arc::new(Mutex::new(Vec::new())),
            debug_enabled: Arc::new(AtomicBool::new(cfg.debug_enabled)),
            debug_variables: Arc::new(Mutex::new(DebugVariableHandles::new())),
            hmi_live: Arc::new(Mutex::new(live)),
            hmi_descriptor: Arc::new(Mutex::new(descriptor)),
            historian,
            // the store object exists in every variant (the probe lists it); the endpoint
            // only gets it when the variant says so
            pairing: if cfg.pairing_present() { Some(store.clone()) } else { None },
        });
        drop(harness);

        let sock = dir.join("ctl.sock");
        let before = open_sockets();
        let _server = ControlServer::start(ControlEndpoint::Unix(sock.clone()), state.clone())
            .map_err(|e| format!("ControlServer::start: {e}"))?;
        let after = open_sockets();
        let new: Vec<i32> = after.difference(&before).map(|(fd, _)| *fd).collect();
        let listener_fd = if new.len() == 1 { Some(new[0]) } else { None };

        let stream = UnixStream::connect(&sock).map_err(|e| format!("connect: {e}"))?;
        stream
            .set_read_timeout(Some(Duration::from_secs(180)))
            .map_err(|e| e.to_string())?;
        stream
            .set_write_timeout(Some(Duration::from_secs(180)))
            .map_err(|e| e.to_string())?;
        let reader = BufReader::new(stream.try_clone().map_err(|e| e.to_string())?);

        let mut fx = Fixture {
            cfg,
            dir,
            project,
            state,
            store,
            clock,
            t_req: tpl.t_req,
            commands,
            pending_code,
            alarm_id,
            file_id,
            bp_line_free,
            expiry_consumed: false,
            requests_served: 0,
            listener_fd,
            writer: Some(stream),
            reader: Some(reader),
            responder: Some(responder),
            fence,
            audit_rx,
            sock: sock.clone(),
            fence_failed: std::cell::Cell::new(false),
            debug_layout_ok: true,
            has_debug_snapshot,
        };
        // the probe must be able to see the debugger's private fields
        let p = fx.probe();
        fx.debug_layout_ok = !p.part("debug_exec").starts_with("?")
            && !p.part("forced").starts_with("?")
            && !p.part("queued_writes").starts_with("?")
            && !p.part("stop_flag").starts_with("?");
        Ok(fx)
    }

    /// Wait until every resource command sent so far has been recorded.
    fn fence(&self) {
        let (tx, rx) = std::sync::mpsc::channel();
        if self
            .fence
            .send_command(ResourceCommand::MeshSnapshot {
                names: Vec::new(),
                respond_to: tx,
            })
            .is_ok()
        {
            // no practical bound: a probe read before the record is complete would show a
            // change that belongs to the previous request
            if rx.recv_timeout(Duration::from_secs(600)).is_err() {
                self.fence_failed.set(true);
            }
        } else {
            self.fence_failed.set(true);
        }
    }

    pub fn probe(&self) -> ProbeState {
        self.probe_with(true)
    }

    /// `with_moat = false` leaves the moat listing out (the probe BEFORE a request: the moat
    /// was found clean after the previous one).
    pub fn probe_with(&self, with_moat: bool) -> ProbeState {
        self.fence();
        let st = &self.state;
        let mut parts: Vec<(&'static str, String)> = Vec::new();
        let dbg = format!("{:?}", st.debug);
        let exec = match (
            segment(&dbg, "mode: ", ", last_location: "),
            segment(&dbg, ", target_thread: ", ", breakpoints: "),
            segment(&dbg, ", pending_stop: ", ", stops: "),
            segment(&dbg, ", steps: ", ", io_writes: "),
        ) {
            (Some(a), Some(b), Some(c), Some(d)) => format!("mode={a} target={b} pending_stop={c} steps={d}"),
            _ => "?layout".to_string(),
        };
        parts.push(("debug_exec", exec));
        let bps: Vec<String> = st
            .debug
            .breakpoints()
            .iter()
            .map(|b| format!("{}:{}-{}", b.location.file_id, b.location.start, b.location.end))
            .collect();
        parts.push(("breakpoints", bps.join(",")));
        parts.push((
            "queued_writes",
            match (
                segment(&dbg, ", io_writes: ", ", pending_var_writes: "),
                segment(&dbg, ", pending_var_writes: ", ", pending_lvalue_writes: "),
                segment(&dbg, ", pending_lvalue_writes: ", ", forced_vars: "),
            ) {
                (Some(a), Some(b), Some(c)) => format!("io={a} var={b} lvalue={c}"),
                _ => "?layout".to_string(),
            },
        ));
        parts.push((
            "forced",
            match (
                segment(&dbg, ", forced_vars: ", ", forced_io: "),
                dbg.rfind(", forced_io: ").map(|i| &dbg[i..]),
            ) {
                (Some(a), Some(b)) => format!("vars={a}{b}"),
                _ => "?layout".to_string(),
            },
        ));
        parts.push((
            "settings",
            st.settings.lock().map(|s| format!("{:?}", *s)).unwrap_or_default(),
        ));
        // one part per configuration key (canonical spelling), so that a change can be
        // attributed to the setting that was effectively applied, however the request spelt it
        if let Ok(cfgs) = st.settings.lock() {
            let c = &*cfgs;
            parts.push(("cfg:log.level", c.log_level.to_string()));
            parts.push(("cfg:watchdog.enabled", c.watchdog.enabled.to_string()));
            parts.push(("cfg:watchdog.timeout_ms", format!("{:?}", c.watchdog.timeout)));
            parts.push(("cfg:watchdog.action", format!("{:?}", c.watchdog.action)));
            parts.push(("cfg:fault.policy", format!("{:?}", c.fault_policy)));
            parts.push(("cfg:retain.mode", format!("{:?}", c.retain_mode)));
            parts.push(("cfg:retain.save_interval_ms", format!("{:?}", c.retain_save_interval)));
            parts.push(("cfg:web.enabled", c.web.enabled.to_string()));
            parts.push(("cfg:web.listen", c.web.listen.to_string()));
            parts.push(("cfg:web.auth", c.web.auth.to_string()));
            parts.push(("cfg:web.tls", c.web.tls.to_string()));
            parts.push(("cfg:discovery.enabled", c.discovery.enabled.to_string()));
            parts.push(("cfg:discovery.service_name", c.discovery.service_name.to_string()));
            parts.push(("cfg:discovery.advertise", c.discovery.advertise.to_string()));
            parts.push(("cfg:discovery.interfaces", format!("{:?}", c.discovery.interfaces)));
            parts.push(("cfg:mesh.enabled", c.mesh.enabled.to_string()));
            parts.push(("cfg:mesh.listen", c.mesh.listen.to_string()));
            parts.push(("cfg:mesh.tls", c.mesh.tls.to_string()));
            parts.push(("cfg:mesh.auth_token", format!("{:?}", c.mesh.auth_token)));
            parts.push(("cfg:mesh.publish", format!("{:?}", c.mesh.publish)));
            parts.push(("cfg:mesh.subscribe", format!("{:?}", c.mesh.subscribe)));
        }
        parts.push((
            "cfg:control.auth_token",
            st.auth_token.lock().map(|s| format!("{:?}", *s)).unwrap_or_default(),
        ));
        parts.push((
            "cfg:control.mode",
            st.control_mode.lock().map(|s| format!("{:?}", *s)).unwrap_or_default(),
        ));
        parts.push(("cfg:control.debug_enabled", st.debug_enabled.load(Ordering::SeqCst).to_string()));
        parts.push((
            "pending_restart",
            st.pending_restart.lock().map(|s| format!("{:?}", *s)).unwrap_or_default(),
        ));
        parts.push((
            "control_mode",
            st.control_mode.lock().map(|s| format!("{:?}", *s)).unwrap_or_default(),
        ));
        parts.push((
            "auth_token",
            st.auth_token.lock().map(|s| format!("{:?}", *s)).unwrap_or_default(),
        ));
        parts.push(("debug_enabled", st.debug_enabled.load(Ordering::SeqCst).to_string()));
        // pairing list, restricted to tokens that are alive at request time (pruning of
        // run-out tokens is bookkeeping, not a change of pairing data)
        let mut list: Vec<String> = self
            .store
            .list()
            .into_iter()
            .filter(|t| t.expires_at >= self.t_req)
            .map(|t| {
                format!(
                    "{}|{}|{}|{}|{}|{}",
                    t.id,
                    t.enabled,
                    t.role.as_str(),
                    t.created_at,
                    t.expires_at,
                    t.tail
                )
            })
            .collect();
        list.sort();
        parts.push(("pairing", list.join(";")));
        parts.push(("resource_commands", self.commands.lock().unwrap().join(";")));
        let res = format!("{:?}", st.resource);
        parts.push((
            "stop_flag",
            segment(&res, "stop: ", ",").map(str::to_string).unwrap_or_else(|| "?layout".into()),
        ));
        parts.push(("project_files", tree_digest(&self.project)));
        // moat oracle: nothing the check did not create between the scratch top and this fixture
        parts.push((
            "outside_project",
            if with_moat {
                super::moat().map(|m| m.foreign(Some(&self.dir))).unwrap_or_default()
            } else {
                String::new()
            },
        ));
        parts.push((
            "hmi_descriptor",
            st.hmi_descriptor
                .lock()
                .map(|d| format!("rev={} err={:?}", d.schema_revision, d.last_error))
                .unwrap_or_default(),
        ));
        parts.push((
            "hmi_alarm_ack",
            st.hmi_live
                .lock()
                .map(|live| {
                    trust_runtime::hmi::build_alarm_view(&live, 1)
                        .active
                        .iter()
                        .map(|a| format!("{}={}", a.id, a.acknowledged))
                        .collect::<Vec<_>>()
                        .join(",")
                })
                .unwrap_or_default(),
        ));
        ProbeState { parts }
    }

    /// Send one line, read one reply line.
    pub fn exchange(&mut self, line: &[u8]) -> Reply {
        self.requests_served += 1;
        let Some(w) = self.writer.as_mut() else {
            return Reply::Closed;
        };
        let mut buf = Vec::with_capacity(line.len() + 1);
        buf.extend_from_slice(line);
        buf.push(b'\n');
        if w.write_all(&buf).is_err() || w.flush().is_err() {
            return Reply::Closed;
        }
        let Some(r) = self.reader.as_mut() else {
            return Reply::Closed;
        };
        let mut out = Vec::new();
        match r.read_until(b'\n', &mut out) {
            Ok(0) => Reply::Closed,
            Ok(_) => {
                while out.last() == Some(&b'\n') || out.last() == Some(&b'\r') {
                    out.pop();
                }
                Reply::Line(String::from_utf8_lossy(&out).into_owned())
            }
            Err(e)
                if e.kind() == std::io::ErrorKind::WouldBlock
                    || e.kind() == std::io::ErrorKind::TimedOut =>
            {
                Reply::Timeout
            }
            Err(_) => Reply::Closed,
        }
    }

    /// Drop the connection and open a fresh one to the same endpoint.
    pub fn reconnect(&mut self) -> Result<(), String> {
        self.writer.take();
        self.reader.take();
        let stream = UnixStream::connect(&self.sock).map_err(|e| format!("connect: {e}"))?;
        stream
            .set_read_timeout(Some(Duration::from_secs(180)))
            .map_err(|e| e.to_string())?;
        stream
            .set_write_timeout(Some(Duration::from_secs(180)))
            .map_err(|e| e.to_string())?;
        self.reader = Some(BufReader::new(stream.try_clone().map_err(|e| e.to_string())?));
        self.writer = Some(stream);
        Ok(())
    }

    /// The configured auth token, read even when its mutex is poisoned.
    pub fn configured_token(&self) -> (Option<String>, bool) {
        match self.state.auth_token.lock() {
            Ok(g) => (g.as_ref().map(|t| t.to_string()), false),
            Err(p) => (p.into_inner().as_ref().map(|t| t.to_string()), true),
        }
    }

    /// Is a further (unsolicited) line waiting on the connection?
    pub fn stray_line(&mut self) -> Option<String> {
        let r = self.reader.as_mut()?;
        if !r.buffer().is_empty() {
            let mut out = Vec::new();
            let _ = r.read_until(b'\n', &mut out);
            return Some(String::from_utf8_lossy(&out).into_owned());
        }
        None
    }

    pub fn set_request_clock(&self) {
        self.clock.store(self.t_req, Ordering::SeqCst);
    }

    /// Stop the server threads and remove the scratch directory. The accept thread ends
    /// because its listener is shut down, the client thread because the connection closes,
    /// the command responder because the last sender goes with them; the responder's handle
    /// is returned so that the caller can join it (it ends last).
    pub fn teardown(mut self) -> (Option<std::thread::JoinHandle<()>>, Option<String>) {
        let mut problem = None;
        self.writer.take();
        self.reader.take();
        if let Some(fd) = self.listener_fd.take() {
            // wakes the blocked accept() with EINVAL -> the accept loop ends and drops the listener
            unsafe {
                libc::shutdown(fd, libc::SHUT_RDWR);
            }
        } else {
            problem = Some("listener fd not identified; accept thread left behind".to_string());
        }
        let responder = self.responder.take();
        let dir = self.dir.clone();
        let Fixture { state, fence, store, .. } = self;
        drop(fence);
        drop(store);
        drop(state);
        let _ = std::fs::remove_dir_all(&dir);
        (responder, problem)
    }
}

fn tree_digest(root: &Path) -> String {
    fn walk(dir: &Path, root: &Path, out: &mut Vec<String>) {
        let Ok(rd) = std::fs::read_dir(dir) else {
            return;
        };
        let mut entries: Vec<PathBuf> = rd.flatten().map(|e| e.path()).collect();
        entries.sort();
        for p in entries {
            let rel = p.strip_prefix(root).unwrap_or(&p).display().to_string();
            match std::fs::symlink_metadata(&p) {
                Ok(m) if m.is_dir() => {
                    out.push(format!("{rel}/"));
                    walk(&p, root, out);
                }
                Ok(_) => {
                    let bytes = std::fs::read(&p).unwrap_or_default();
                    out.push(format!("{rel}:{:016x}", crate::engine::digest64(&bytes)));
                }
                Err(_) => {}
            }
        }
    }
    let mut out = Vec::new();
    walk(root, root, &mut out);
    out.join(",")
}
