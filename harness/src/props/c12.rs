//! C12 - parsing is total and lossless for every input text.
//!
//! Generators: random Unicode strings; token soups from the lexer's vocabulary (hand
//! list + every distinct token text harvested from /repo's .st files); mutated corpus
//! programs (truncate, splice, delete/duplicate/swap tokens); nesting generators for
//! every recursive construct up to depth 256. Oracles: lex/parse return; tokens tile the
//! input; tree text == input; error ranges in bounds and on char boundaries; parsing is
//! pure; error-free inputs keep their shape when spaces/newlines/block comments are
//! inserted between adjacent tokens.
//!
//! Strengthened after seeded change C12-e (a statement lookahead window that counts trivia
//! tokens): `c12/longgen.rs` prints error-free units with LONG token runs in front of the
//! deciding token, `c12/bulk.rs` inserts trivia at many boundaries at once (every boundary,
//! every k-th, before deciding tokens, long runs, windows), `c12/lengthen.rs` lengthens
//! constructs of corpus files; plus a deterministic sweep over run lengths 1..=160.

use std::sync::OnceLock;

use proptest::prelude::*;
use serde::{Deserialize, Serialize};
use serde_json::json;
use trust_syntax::lexer::{lex, TokenKind};
use trust_syntax::parser::parse;

use crate::engine::tape::{tape_strategy, Reader, Tape};
use crate::engine::{Probe, PropertyInfo, RunCtx};

mod bulk;
mod lengthen;
mod longgen;

pub fn info() -> PropertyInfo {
    PropertyInfo {
        id: "C12",
        level: "exploration",
        rule: "cases = random unicode strings, token soups (hand vocabulary + tokens harvested from /repo .st files), mutated corpus files (truncate/splice/delete/duplicate/swap tokens), nesting generators (depth <= 256) and whitespace/comment insertions into error-free inputs (single insertions into corpus files and fragments; bulk insertions - every boundary, every k-th, before deciding tokens, runs of up to 300 trivia tokens, windows - into generated error-free units with long token runs (1..300, biased to powers of two) before the deciding token, into corpus files and into corpus files with lengthened constructs; a deterministic sweep over run lengths 1..=160); non-trivial = input of >= 3 non-trivia tokens whose parse has both a completed node and an error, or an error-free input with >= 1 applicable insertion, or a nesting case of depth >= 32; distinct by SHA-256 of the input text (+ insertions)",
        assumptions: &[
            "stack overflow is judged against an 8 MiB stack (worker thread size = Linux main-thread default)",
            "nesting depth bound 256 (stated depth of the property)",
        ],
        workers_quick: 8,
        workers_thorough: 16,
        address_space_limit: 4 << 30,
        watchdog_quick_s: 900,
        watchdog_thorough_s: 7200,
        run,
    }
}

pub struct Corpus {
    pub files: Vec<String>,
    pub vocab: Vec<String>,
}

fn walk(dir: &std::path::Path, out: &mut Vec<std::path::PathBuf>) {
    let Ok(rd) = std::fs::read_dir(dir) else {
        return;
    };
    let mut entries: Vec<_> = rd.flatten().map(|e| e.path()).collect();
    entries.sort();
    for p in entries {
        let name = p.file_name().and_then(|n| n.to_str()).unwrap_or("");
        if name == "target" || name == ".git" || name == "node_modules" {
            continue;
        }
        if p.is_dir() {
            walk(&p, out);
        } else if name.ends_with(".st") || name.ends_with(".ST") {
            out.push(p);
        }
    }
}

const HAND_VOCAB: &[&str] = &[
    "PROGRAM", "END_PROGRAM", "FUNCTION", "END_FUNCTION", "FUNCTION_BLOCK", "END_FUNCTION_BLOCK",
    "CLASS", "END_CLASS", "METHOD", "END_METHOD", "PROPERTY", "END_PROPERTY", "INTERFACE",
    "END_INTERFACE", "NAMESPACE", "END_NAMESPACE", "USING", "ACTION", "END_ACTION", "VAR",
    "END_VAR", "VAR_INPUT", "VAR_OUTPUT", "VAR_IN_OUT", "VAR_TEMP", "VAR_GLOBAL", "VAR_EXTERNAL",
    "VAR_ACCESS", "VAR_CONFIG", "VAR_STAT", "CONSTANT", "RETAIN", "NON_RETAIN", "PERSISTENT",
    "PUBLIC", "PRIVATE", "PROTECTED", "INTERNAL", "FINAL", "ABSTRACT", "OVERRIDE", "TYPE",
    "END_TYPE", "STRUCT", "END_STRUCT", "UNION", "END_UNION", "ARRAY", "OF", "STRING", "WSTRING",
    "POINTER", "TO", "REF_TO", "REF", "IF", "THEN", "ELSIF", "ELSE", "END_IF", "CASE", "END_CASE",
    "FOR", "BY", "DO", "END_FOR", "WHILE", "END_WHILE", "REPEAT", "UNTIL", "END_REPEAT", "EXIT",
    "CONTINUE", "RETURN", "JMP", "AND", "OR", "XOR", "NOT", "MOD", "AND_THEN", "OR_ELSE", "TRUE",
    "FALSE", "NULL", "THIS", "SUPER", "NEW", "__NEW", "__DELETE", "EXTENDS", "IMPLEMENTS", "GET",
    "SET", "END_GET", "END_SET", "AT", "CONFIGURATION", "END_CONFIGURATION", "RESOURCE", "ON",
    "END_RESOURCE", "TASK", "WITH", "READ_ONLY", "READ_WRITE", "STEP", "END_STEP",
    "INITIAL_STEP", "TRANSITION", "END_TRANSITION", "FROM", "EN", "ENO", "BOOL", "SINT", "INT",
    "DINT", "LINT", "USINT", "UINT", "UDINT", "ULINT", "REAL", "LREAL", "BYTE", "WORD", "DWORD",
    "LWORD", "TIME", "LTIME", "DATE", "TOD", "DT", "CHAR", "WCHAR", "ANY", "ANY_INT", ";", ":",
    ",", ".", "..", "(", ")", "[", "]", "#", "^", "@", ":=", "=>", "?=", "=", "<>", "<", "<=", ">",
    ">=", "+", "-", "*", "/", "**", "&", "1", "0", "42", "1_000", "1.", "1..2", "1.5", "1.5e10",
    "1.0E-3", "16#FF", "16#FF.", "2#1010", "8#17", "16#", "2#", "INT#5", "INT#-5", "INT#16#7F",
    "REAL#1.0", "BOOL#TRUE", "T#5s", "T#1h2m3s4ms", "T#-5ms", "TIME#1d", "LTIME#5ns", "T#5", "T#",
    "D#2024-01-02", "DATE#2024-13-40", "TOD#12:34:56", "TOD#12:34:56.789", "DT#2024-01-02-03:04:05",
    "LDT#2024-01-02-03:04:05.123", "%IX0.0", "%QW4", "%MD10", "%I*", "%Q*", "%IX", "%", "%X1",
    "%IB1.2.3", "'abc'", "'a$'b'", "'", "'unterminated", "\"wide\"", "\"", "\"unterminated",
    "(* c *)", "(* nested (* c *) *)", "(*", "*)", "/* c */", "/*", "*/", "// line", "//",
    "{pragma}", "{", "}", "{attribute 'x'}", "x", "y", "foo", "_x", "x_1", "Main", "a.b", "a[1]",
    "a^", "ADR(x)", "x#", "E_Color#Red", "$", "?", "!", "~", "`", "\\", "|", "\t", "\r\n", "\n",
    "\r", " ", "\u{feff}", "\u{0}", "\u{e9}", "\u{4e2d}", "\u{1F600}", "\u{0301}",
];

pub fn corpus() -> &'static Corpus {
    static C: OnceLock<Corpus> = OnceLock::new();
    C.get_or_init(|| {
        let mut paths = Vec::new();
        walk(&crate::engine::repo_root(), &mut paths);
        let mut files = Vec::new();
        let mut vocab: Vec<String> = HAND_VOCAB.iter().map(|s| s.to_string()).collect();
        let mut seen: std::collections::HashSet<String> = vocab.iter().cloned().collect();
        for p in paths {
            let Ok(text) = std::fs::read_to_string(&p) else {
                continue;
            };
            if text.len() > 24_000 || text.is_empty() {
                continue;
            }
            for t in lex(&text) {
                if t.kind == TokenKind::Whitespace {
                    continue;
                }
                let s = &text[usize::from(t.range.start())..usize::from(t.range.end())];
                if s.len() <= 40 && seen.insert(s.to_string()) && vocab.len() < 4000 {
                    vocab.push(s.to_string());
                }
            }
            files.push(text);
        }
        if files.is_empty() {
            files.push("PROGRAM P\nVAR x : INT; END_VAR\nx := x + 1;\nEND_PROGRAM\n".to_string());
        }
        Corpus { files, vocab }
    })
}

fn token_texts(text: &str) -> Vec<(TokenKind, usize, usize)> {
    lex(text)
        .into_iter()
        .map(|t| (t.kind, usize::from(t.range.start()), usize::from(t.range.end())))
        .collect()
}

/// Shape = pre-order list of node kinds and non-trivia token kinds/texts.
fn shape(node: &trust_syntax::SyntaxNode) -> Vec<String> {
    let mut out = Vec::new();
    for ev in node.preorder_with_tokens() {
        if let rowan::WalkEvent::Enter(el) = ev {
            match el {
                rowan::NodeOrToken::Node(n) => out.push(format!("N:{:?}", n.kind())),
                rowan::NodeOrToken::Token(t) => {
                    let k = t.kind();
                    let name = format!("{k:?}");
                    if matches!(
                        name.as_str(),
                        "Whitespace" | "LineComment" | "BlockComment" | "Pragma"
                    ) {
                        continue;
                    }
                    out.push(format!("T:{}:{}", name, t.text()));
                }
            }
        }
    }
    out
}

/// Result of the basic oracles on one text.
pub struct Checked {
    pub parse: trust_syntax::parser::Parse,
    /// raw tokens (kind, start, end), trivia included
    pub tokens: Vec<(TokenKind, usize, usize)>,
    pub non_trivia: usize,
    pub has_err: bool,
    pub has_node: bool,
}

/// The basic oracles on one text. Returns (#non-trivia tokens, has_error, has_node).
pub fn check_text(text: &str) -> Result<(usize, bool, bool), String> {
    let c = check_text_full(text)?;
    Ok((c.non_trivia, c.has_err, c.has_node))
}

/// The basic oracles on one text (tiling, lossless, error ranges, purity); hands back the
/// tokens and the parse so that callers need not lex/parse again.
pub fn check_text_full(text: &str) -> Result<Checked, String> {
    let tokens = token_texts(text);
    let mut pos = 0usize;
    let mut concat = String::with_capacity(text.len());
    for (i, (kind, s, e)) in tokens.iter().enumerate() {
        if *s != pos {
            return Err(format!(
                "token {i} ({kind:?}) starts at {s}, previous ended at {pos}: tokens do not tile the input"
            ));
        }
        if e < s || *e > text.len() {
            return Err(format!("token {i} ({kind:?}) has range {s}..{e} outside 0..{}", text.len()));
        }
        if e == s {
            return Err(format!("token {i} ({kind:?}) is empty at {s}"));
        }
        if !text.is_char_boundary(*s) || !text.is_char_boundary(*e) {
            return Err(format!("token {i} ({kind:?}) range {s}..{e} not on char boundaries"));
        }
        concat.push_str(&text[*s..*e]);
        pos = *e;
    }
    if pos != text.len() {
        return Err(format!("tokens end at {pos}, text has {} bytes", text.len()));
    }
    if concat != text {
        return Err("concatenated token texts differ from the input".into());
    }
    let p1 = parse(text);
    let tree = p1.syntax();
    let tree_text = tree.text().to_string();
    if tree_text != text {
        let at = tree_text
            .bytes()
            .zip(text.bytes())
            .position(|(a, b)| a != b)
            .unwrap_or(tree_text.len().min(text.len()));
        return Err(format!(
            "syntax tree text differs from input (tree {} bytes, input {} bytes, first difference at {at})",
            tree_text.len(),
            text.len()
        ));
    }
    for err in p1.errors() {
        let s = usize::from(err.range.start());
        let e = usize::from(err.range.end());
        if s > e || e > text.len() {
            return Err(format!("error range {s}..{e} outside 0..={} ({})", text.len(), err.message));
        }
        if !text.is_char_boundary(s) || !text.is_char_boundary(e) {
            return Err(format!("error range {s}..{e} not on char boundaries ({})", err.message));
        }
    }
    let p2 = parse(text);
    if p1.errors() != p2.errors() {
        return Err("parsing twice gives different error lists".into());
    }
    if p1.syntax().green() != p2.syntax().green() {
        return Err("parsing twice gives different trees".into());
    }
    let non_trivia = tokens.iter().filter(|(k, _, _)| !k.is_trivia()).count();
    let has_node = tree.children().next().is_some();
    let has_err = !p1.ok();
    Ok(Checked {
        parse: p1,
        tokens,
        non_trivia,
        has_err,
        has_node,
    })
}

fn basic(text: &String, probe: &mut Probe, class: &str) -> Result<(), String> {
    let (nt, has_err, has_node) = check_text(text)?;
    probe.label(format!("gen={class}"));
    probe.label(if has_err { "parse=errors" } else { "parse=clean" });
    if nt >= 3 && has_err && has_node {
        probe.nontrivial(text.as_bytes());
        probe.sample(json!({"class": class, "text": truncate(text, 300)}));
    }
    Ok(())
}

fn truncate(s: &str, n: usize) -> String {
    if s.len() <= n {
        return s.to_string();
    }
    let mut end = n;
    while !s.is_char_boundary(end) {
        end -= 1;
    }
    format!("{}...[{} bytes]", &s[..end], s.len())
}

fn soup_from_tape(tape: &Tape) -> String {
    let c = corpus();
    let mut r = Reader::new(tape);
    let mut out = String::new();
    let n = 1 + r.pick(60);
    for _ in 0..n {
        if r.exhausted() {
            break;
        }
        let tok = &c.vocab[r.pick(c.vocab.len())];
        out.push_str(tok);
        match r.weighted(&[6, 2, 1, 1]) {
            0 => out.push(' '),
            1 => {}
            2 => out.push('\n'),
            _ => out.push_str("\r\n"),
        }
    }
    out
}

fn floor_boundary(s: &str, mut i: usize) -> usize {
    if i > s.len() {
        i = s.len();
    }
    while !s.is_char_boundary(i) {
        i -= 1;
    }
    i
}

fn mutate_from_tape(tape: &Tape) -> String {
    let c = corpus();
    let mut r = Reader::new(tape);
    let mut text = c.files[r.pick(c.files.len())].clone();
    let rounds = 1 + r.pick(4);
    for _ in 0..rounds {
        let toks = token_texts(&text);
        if toks.is_empty() {
            break;
        }
        match r.pick(7) {
            0 => {
                // truncate at a byte (char boundary)
                let at = floor_boundary(&text, r.pick(text.len() + 1));
                text.truncate(at);
            }
            1 => {
                // delete a token
                let (_, s, e) = toks[r.pick(toks.len())];
                text.replace_range(s..e, "");
            }
            2 => {
                // duplicate a token
                let (_, s, e) = toks[r.pick(toks.len())];
                let t = text[s..e].to_string();
                text.insert_str(e, &t);
            }
            3 => {
                // swap two tokens
                let a = toks[r.pick(toks.len())];
                let b = toks[r.pick(toks.len())];
                let (a, b) = if a.1 <= b.1 { (a, b) } else { (b, a) };
                if a.2 <= b.1 {
                    let ta = text[a.1..a.2].to_string();
                    let tb = text[b.1..b.2].to_string();
                    text.replace_range(b.1..b.2, &ta);
                    text.replace_range(a.1..a.2, &tb);
                }
            }
            4 => {
                // splice a slice of another file
                let other = &c.files[r.pick(c.files.len())];
                let s = floor_boundary(other, r.pick(other.len() + 1));
                let e = floor_boundary(other, (s + r.pick(400)).min(other.len()));
                let at = floor_boundary(&text, r.pick(text.len() + 1));
                text.insert_str(at, &other[s..e.max(s)]);
            }
            5 => {
                // replace a token by a vocabulary item
                let (_, s, e) = toks[r.pick(toks.len())];
                let v = &c.vocab[r.pick(c.vocab.len())];
                text.replace_range(s..e, v);
            }
            _ => {
                // cut out a byte range
                let s = floor_boundary(&text, r.pick(text.len() + 1));
                let e = floor_boundary(&text, (s + r.pick(200)).min(text.len()));
                text.replace_range(s..e.max(s), "");
            }
        }
    }
    text
}

#[derive(Clone, Debug, Serialize, Deserialize)]
pub struct NestCase {
    pub kind: u8,
    pub depth: u16,
    pub close: bool,
}

pub fn nest_text(c: &NestCase) -> String {
    let d = c.depth as usize;
    let mut s = String::new();
    let prog_open = "PROGRAM P\nVAR x : INT; b : BOOL; END_VAR\n";
    let prog_close = "END_PROGRAM\n";
    let rep = |t: &str, n: usize| t.repeat(n);
    match c.kind % 12 {
        0 => {
            s.push_str(prog_open);
            s.push_str("x := ");
            s.push_str(&rep("(", d));
            s.push('1');
            if c.close {
                s.push_str(&rep(")", d));
            }
            s.push_str(";\n");
            s.push_str(prog_close);
        }
        1 => {
            s.push_str(prog_open);
            s.push_str(&rep("IF b THEN\n", d));
            s.push_str("x := 1;\n");
            if c.close {
                s.push_str(&rep("END_IF;\n", d));
            }
            s.push_str(prog_close);
        }
        2 => {
            s.push_str(prog_open);
            s.push_str(&rep("CASE x OF 1:\n", d));
            s.push_str("x := 1;\n");
            if c.close {
                s.push_str(&rep("END_CASE;\n", d));
            }
            s.push_str(prog_close);
        }
        3 => {
            s.push_str(prog_open);
            s.push_str(&rep("FOR x := 1 TO 2 DO\n", d));
            s.push_str("b := TRUE;\n");
            if c.close {
                s.push_str(&rep("END_FOR;\n", d));
            }
            s.push_str(prog_close);
        }
        4 => {
            s.push_str(prog_open);
            s.push_str(&rep("WHILE b DO\n", d));
            s.push_str("b := FALSE;\n");
            if c.close {
                s.push_str(&rep("END_WHILE;\n", d));
            }
            s.push_str(prog_close);
        }
        5 => {
            s.push_str(prog_open);
            s.push_str(&rep("REPEAT\n", d));
            s.push_str("b := FALSE;\n");
            if c.close {
                s.push_str(&rep("UNTIL b END_REPEAT;\n", d));
            }
            s.push_str(prog_close);
        }
        6 => {
            s.push_str("TYPE T : ");
            s.push_str(&rep("ARRAY[0..1] OF ", d));
            s.push_str("INT; END_TYPE\n");
        }
        7 => {
            s.push_str("TYPE T : ");
            s.push_str(&rep("STRUCT f : ", d));
            s.push_str("INT;");
            if c.close {
                s.push_str(&rep(" END_STRUCT;", d));
            }
            s.push_str(" END_TYPE\n");
        }
        8 => {
            s.push_str(&rep("NAMESPACE N\n", d));
            s.push_str("FUNCTION F : INT\nF := 1;\nEND_FUNCTION\n");
            if c.close {
                s.push_str(&rep("END_NAMESPACE\n", d));
            }
        }
        9 => {
            s.push_str(prog_open);
            s.push_str("x := ");
            s.push_str(&rep("F(", d));
            s.push('1');
            if c.close {
                s.push_str(&rep(")", d));
            }
            s.push_str(";\n");
            s.push_str(prog_close);
        }
        10 => {
            s.push_str(prog_open);
            s.push_str("x := ");
            s.push_str(&rep("- NOT ", d));
            s.push_str("1;\n");
            s.push_str(prog_close);
        }
        _ => {
            s.push_str(prog_open);
            s.push_str("x := a");
            s.push_str(&rep("[a", d));
            if c.close {
                s.push_str(&rep("]", d));
            }
            s.push_str(";\n");
            s.push_str(prog_close);
        }
    }
    s
}

#[derive(Clone, Debug, Serialize, Deserialize)]
pub struct InsCase {
    pub text: String,
    /// (token-boundary selector, kind of insertion)
    pub ins: Vec<(u32, u8)>,
}

fn nontrivia_seq(text: &str) -> Vec<(TokenKind, String)> {
    token_texts(text)
        .into_iter()
        .filter(|(k, _, _)| !k.is_trivia())
        .map(|(k, s, e)| (k, text[s..e].to_string()))
        .collect()
}

fn check_insertion(case: &InsCase, probe: &mut Probe) -> Result<(), String> {
    let text = &case.text;
    check_text(text)?;
    let p0 = parse(text);
    if !p0.ok() {
        probe.label("ins=base_has_errors");
        return Ok(());
    }
    let base_shape = shape(&p0.syntax());
    let base_seq = nontrivia_seq(text);
    let toks = token_texts(text);
    if toks.len() < 2 {
        return Ok(());
    }
    let mut applied = 0;
    for (sel, kind) in &case.ins {
        // boundary after token i
        let i = ((*sel as u64 * (toks.len() as u64 - 1)) >> 32) as usize;
        let at = toks[i].2;
        let filler = match kind % 6 {
            0 => " ",
            1 => "\n",
            2 => "(* c *)",
            3 => "\t \r\n",
            4 => "(* a (* b *) *)",
            _ => " (* c *) ",
        };
        let mut edited = String::with_capacity(text.len() + filler.len());
        edited.push_str(&text[..at]);
        edited.push_str(filler);
        edited.push_str(&text[at..]);
        // Only insertions the lexer does not glue or split count (decided by re-lexing).
        if nontrivia_seq(&edited) != base_seq {
            probe.label("ins=changes_lexing_skipped");
            continue;
        }
        check_text(&edited)?;
        let p = parse(&edited);
        if !p.ok() {
            return Err(format!(
                "error-free input gets syntax errors after inserting {filler:?} at byte {at} (after token {:?} {:?}, before {:?}): {}",
                toks[i].0,
                &text[toks[i].1..toks[i].2],
                toks.get(i + 1).map(|t| &text[t.1..t.2]),
                p.errors()[0]
            ));
        }
        let sh = shape(&p.syntax());
        if sh != base_shape {
            let d = sh
                .iter()
                .zip(base_shape.iter())
                .position(|(a, b)| a != b)
                .unwrap_or(sh.len().min(base_shape.len()));
            return Err(format!(
                "tree shape changes after inserting {filler:?} at byte {at} (after token {:?}): first difference at pre-order index {d}: {:?} vs {:?}",
                &text[toks[i].1..toks[i].2],
                base_shape.get(d),
                sh.get(d)
            ));
        }
        applied += 1;
    }
    probe.label("ins=checked");
    if applied > 0 {
        let mut key = text.as_bytes().to_vec();
        for (a, b) in &case.ins {
            key.extend_from_slice(&a.to_le_bytes());
            key.push(*b);
        }
        probe.nontrivial(&key);
        probe.sample(json!({"class": "insertion", "text": truncate(text, 200), "insertions": case.ins.len()}));
    }
    Ok(())
}

/// Small error-free programs assembled from corpus-independent fragments, so the
/// insertion oracle always has material even if /repo's files change.
fn valid_program_from_tape(tape: &Tape) -> String {
    let c = corpus();
    let mut r = Reader::new(tape);
    // Prefer whole corpus files that parse cleanly; fall back to fragments.
    if r.chance(3, 4) {
        for _ in 0..4 {
            let f = &c.files[r.pick(c.files.len())];
            if f.len() < 6000 && parse(f).ok() {
                return f.clone();
            }
        }
    }
    const DECLS: &[&str] = &[
        "x : INT;", "y : INT := INT#5;", "b : BOOL := TRUE;", "r : REAL := 1.5;",
        "a : ARRAY[0..3] OF INT;", "t : TIME := T#5s;", "s : STRING[10] := 'ab';",
        "w : WORD := 16#FF;", "i AT %IX0.0 : BOOL;", "d : DATE := D#2024-01-02;",
    ];
    const STMTS: &[&str] = &[
        "x := x + 1;", "x := (x * 2) MOD 3;", "b := NOT b AND (x > 1);", "a[1] := x;",
        "IF b THEN x := 1; ELSIF x = 2 THEN x := 3; ELSE x := 4; END_IF;",
        "CASE x OF 1: x := 2; 3, 4: x := 5; 6..9: x := 0; ELSE x := 1; END_CASE;",
        "FOR x := 1 TO 10 BY 2 DO y := y + x; END_FOR;", "WHILE x < 3 DO x := x + 1; END_WHILE;",
        "REPEAT x := x - 1; UNTIL x <= 0 END_REPEAT;", "r := r * 2.0 - 1.0E-3;",
        "x := INT#16#7F;", "b := t >= T#1s;", "y := -x ** 2;", "x := a[x] + a[1..1][1];",
        "RETURN;", ";",
    ];
    let mut s = String::from("PROGRAM P\nVAR\n");
    for _ in 0..1 + r.pick(6) {
        s.push_str("  ");
        s.push_str(DECLS[r.pick(DECLS.len())]);
        s.push('\n');
    }
    s.push_str("END_VAR\n");
    for _ in 0..1 + r.pick(8) {
        s.push_str(STMTS[r.pick(STMTS.len())]);
        s.push('\n');
    }
    s.push_str("END_PROGRAM\n");
    s
}

// ---------------------------------------------------------------------------------
// Bulk insertion into long constructs (generated, corpus, sweep)
// ---------------------------------------------------------------------------------

#[derive(Clone, Debug, Serialize, Deserialize)]
pub struct BulkCase {
    pub text: String,
    /// classification computed by the generator (origin, construct kinds, run-length
    /// buckets, style)
    pub labels: Vec<String>,
    pub edits: Vec<bulk::Edit>,
}

fn bucket(n: usize) -> &'static str {
    match n {
        0..=7 => "0-7",
        8..=15 => "8-15",
        16..=31 => "16-31",
        32..=63 => "32-63",
        64..=127 => "64-127",
        128..=255 => "128-255",
        _ => "256+",
    }
}

fn edit_strategy() -> impl Strategy<Value = bulk::Edit> {
    let nv = bulk::VERDICT_FILLERS.len() as u8;
    (
        0u8..bulk::MODES.len() as u8,
        // mostly the three kinds of trivia the property names; other trivia now and then
        prop_oneof![6 => 0u8..nv, 1 => nv..bulk::filler_count() as u8],
        any::<u32>(),
        any::<u32>(),
    )
        .prop_map(|(mode, filler, a, b)| bulk::Edit { mode, filler, a, b })
}

/// Tape for the long-construct generator: an explicit prefix of proptest-drawn words (the
/// structural choices; shrinks word by word) followed by `len` words expanded from a drawn
/// 64-bit seed (a pure function of the seed - splitmix64 - so a case is reproducible from
/// its strategy value; shrinking `len` cuts the tail, which turns everything generated from
/// it into the simplest choice). Drawing 1600 words one by one through proptest costs more
/// than parsing the text they generate.
fn long_tape_strategy() -> impl Strategy<Value = Tape> {
    (tape_strategy(96), 0usize..1800, any::<u64>()).prop_map(|(prefix, len, seed)| {
        let mut data = prefix.data;
        data.reserve(len);
        let mut x = seed;
        for i in 0..len {
            x = x.wrapping_add(0x9E37_79B9_7F4A_7C15);
            let mut z = x;
            z = (z ^ (z >> 30)).wrapping_mul(0xBF58_476D_1CE4_E5B9);
            z = (z ^ (z >> 27)).wrapping_mul(0x94D0_49BB_1331_11EB);
            z ^= z >> 31;
            // like tape_strategy: mostly uniform words, some extreme ones
            let w = match (z >> 32) as u32 % 8 {
                0 => 0,
                1 => u32::MAX,
                2 => ((z as u32) >> 28) << 28,
                _ => z as u32,
            };
            let _ = i;
            data.push(w);
        }
        Tape { data }
    })
}

fn long_case(tape: &Tape) -> (String, Vec<String>) {
    let lt = longgen::generate(tape);
    // lexing happens below, inside a strategy: a lexer panic must surface in the case (where
    // it is caught, shrunk and reported), not kill the worker
    match crate::engine::catch(|| long_case_labels(&lt)) {
        Ok(labels) => (lt.text, labels),
        Err(_) => (lt.text, vec!["long=lexer_panicked_in_generator".into()]),
    }
}

fn long_case_labels(lt: &longgen::LongText) -> Vec<String> {
    let mut labels: Vec<String> = Vec::new();
    labels.push(format!("long_style={}", lt.style));
    let mut kinds: Vec<&str> = Vec::new();
    let mut max_run = 0usize;
    let mut max_lhs = 0usize;
    for (k, run) in &lt.constructs {
        max_run = max_run.max(*run);
        if k.starts_with("assign_path") || k.starts_with("assign_index") || k.starts_with("assign_special") {
            max_lhs = max_lhs.max(*run);
        }
        if *run >= 8 && !kinds.contains(k) {
            kinds.push(k);
        }
    }
    for k in kinds {
        labels.push(format!("long={k}"));
    }
    labels.push(format!("long_max_run={}", bucket(max_run)));
    if max_lhs > 0 {
        labels.push(format!("long_lhs_run={}", bucket(max_lhs)));
    }
    // did the join glue or split a token? (then the text is still a string to check, but
    // not the program the generator meant)
    let lexed = nontrivia_seq(&lt.text);
    if lexed.len() != lt.tokens.len() || lexed.iter().zip(lt.tokens.iter()).any(|(a, b)| a.1 != *b) {
        labels.push("long=join_changed_tokens".into());
    }
    labels
}

/// Indices of the corpus files that are error-free (as judged by the parser under test).
fn clean_files() -> &'static Vec<usize> {
    static C: OnceLock<Vec<usize>> = OnceLock::new();
    C.get_or_init(|| {
        let c = corpus();
        (0..c.files.len())
            .filter(|i| c.files[*i].len() <= 12_000 && parse(&c.files[*i]).ok())
            .collect()
    })
}

fn corpus_case(tape: &Tape) -> (String, Vec<String>) {
    // parsing inside a strategy: see long_case
    match crate::engine::catch(|| corpus_case_inner(tape)) {
        Ok(v) => v,
        Err(_) => {
            let c = corpus();
            let mut r = Reader::new(tape);
            (c.files[r.pick(c.files.len())].clone(), vec!["corpus=parser_panicked_in_generator".into()])
        }
    }
}

fn corpus_case_inner(tape: &Tape) -> (String, Vec<String>) {
    let c = corpus();
    let clean = clean_files();
    let mut r = Reader::new(tape);
    let mut labels: Vec<String> = Vec::new();
    if clean.is_empty() {
        labels.push("corpus=no_error_free_file".into());
        return (c.files[0].clone(), labels);
    }
    let mut text = c.files[clean[r.pick(clean.len())]].clone();
    let rewrites = r.weighted(&[2, 3, 2, 1]);
    let mut done = 0;
    for _ in 0..rewrites {
        let (res, r2) = lengthen::lengthen(&text, r);
        r = r2;
        match res {
            Ok(l) => {
                labels.push(format!("corpus_rw={}", l.kind));
                labels.push(format!("corpus_rw_added={}", bucket(l.added)));
                text = l.text;
                done += 1;
            }
            Err(why) => labels.push(format!("corpus_rw_dropped={why}")),
        }
    }
    labels.push(format!("corpus_rewrites={done}"));
    (text, labels)
}

fn check_bulk(case: &BulkCase, probe: &mut Probe, origin: &str) -> Result<(), String> {
    let checked = check_text_full(&case.text)?;
    for l in &case.labels {
        probe.label(l.clone());
    }
    if checked.has_err {
        // not a verdict about the property: the generator promised an error-free text and
        // the parser disagrees; counted so that a drifting generator shows in the histogram
        probe.label(format!("{origin}=discard:{}", checked.parse.errors()[0].message));
        return Ok(());
    }
    probe.label(format!("{origin}=error_free"));
    let base = bulk::Base {
        text: &case.text,
        sig: bulk::shape_sig(&checked.parse.syntax()),
        checked: &checked,
    };
    let mut judged = 0usize;
    for e in &case.edits {
        let (outcome, mode, _verdict) = bulk::check_edit(&base, e).map_err(|m| {
            format!("{m}\n--- original text ({} bytes) ---\n{}", case.text.len(), truncate(&case.text, 1500))
        })?;
        match outcome {
            bulk::Outcome::Judged(n) => {
                judged += 1;
                probe.label(format!("bulk_mode={mode}"));
                probe.label(format!("bulk_points={}", bucket(n)));
            }
            bulk::Outcome::CrashOnly => probe.label("bulk=other_trivia_basic_oracles_only"),
            bulk::Outcome::LexingChanged => probe.label("bulk=lexing_changed_skipped"),
            bulk::Outcome::Empty => probe.label("bulk=no_insertion_point"),
        }
    }
    if judged > 0 {
        let mut key = case.text.as_bytes().to_vec();
        for e in &case.edits {
            key.push(e.mode);
            key.push(e.filler);
            key.extend_from_slice(&e.a.to_le_bytes());
            key.extend_from_slice(&e.b.to_le_bytes());
        }
        probe.nontrivial(&key);
        probe.sample(json!({"class": origin, "text": truncate(&case.text, 300), "labels": case.labels, "edits": case.edits.len()}));
    }
    Ok(())
}

/// Deterministic sweep: one construct, a run of exactly `n` list elements / selectors in
/// front of its deciding token, tight or spaced.
#[derive(Clone, Debug, Serialize, Deserialize)]
pub struct SweepCase {
    pub construct: u8,
    pub n: u16,
    pub style: u8,
}

const SWEEP_CONSTRUCTS: &[&str] = &[
    "index_list_assign",
    "field_path_assign",
    "mixed_path_assign",
    "case_name_labels",
    "named_args_call_stmt",
    "if_condition",
    "call_rhs_args",
    "var_name_list",
    "enum_values",
    "typed_enum_qualified_base",
    "for_bound",
    "case_int_labels_then_name_label",
];

fn sweep_text(c: &SweepCase) -> String {
    let n = c.n.max(1) as usize;
    let tight = c.style % 2 == 0;
    let sp = if tight { "" } else { " " };
    let nl = if tight { "" } else { "\n" };
    let list = |f: &dyn Fn(usize) -> String, sep: &str| -> String {
        (1..=n).map(f).collect::<Vec<_>>().join(sep)
    };
    let comma = format!(",{sp}");
    let mut s = String::new();
    match c.construct as usize % SWEEP_CONSTRUCTS.len() {
        0 => {
            s.push_str("PROGRAM Main\n");
            s.push_str(&format!("m[{}]{sp}:={sp}0;{nl}", list(&|_| "a".into(), &comma)));
            s.push_str("y:=1;\nEND_PROGRAM\n");
        }
        1 => {
            s.push_str("PROGRAM Main\n");
            s.push_str(&format!("p.{}{sp}:={sp}0;{nl}", list(&|i| format!("f{i}"), ".")));
            s.push_str("END_PROGRAM\n");
        }
        2 => {
            s.push_str("FUNCTION_BLOCK FB\n");
            s.push_str("p");
            for i in 1..=n {
                match i % 3 {
                    0 => s.push_str(&format!("[{i}]")),
                    1 => s.push_str(&format!(".f{i}")),
                    _ => s.push('^'),
                }
            }
            s.push_str(&format!("{sp}:={sp}x{sp}+{sp}1;{nl}END_FUNCTION_BLOCK\n"));
        }
        3 => {
            s.push_str("PROGRAM Main\nCASE x OF\n0:y:=1;\n");
            s.push_str(&format!("{}{sp}:{sp}y{sp}:={sp}2;{nl}", list(&|i| format!("A{i}"), &comma)));
            s.push_str("END_CASE\nEND_PROGRAM\n");
        }
        4 => {
            s.push_str("PROGRAM Main\n");
            s.push_str(&format!(
                "F({});{nl}",
                list(&|i| if i % 2 == 0 { format!("a{i}{sp}:={sp}{i}") } else { format!("q{i}{sp}=>{sp}b") }, &comma)
            ));
            s.push_str("y:=1;\nEND_PROGRAM\n");
        }
        5 => {
            s.push_str("PROGRAM Main\nIF ");
            s.push_str(&list(&|i| format!("a{i}"), " AND "));
            s.push_str(&format!(" THEN{nl} x{sp}:={sp}1;{nl}END_IF\nEND_PROGRAM\n"));
        }
        6 => {
            s.push_str("FUNCTION F : INT\n");
            s.push_str(&format!("F{sp}:={sp}G({});{nl}", list(&|i| format!("{i}"), &comma)));
            s.push_str("END_FUNCTION\n");
        }
        7 => {
            s.push_str("PROGRAM Main\nVAR\n");
            s.push_str(&format!("{}{sp}:{sp}INT;{nl}", list(&|i| format!("v{i}"), &comma)));
            s.push_str("END_VAR\nx:=1;\nEND_PROGRAM\n");
        }
        8 => {
            // untyped enum for odd lengths, enum with an elementary base type for even ones
            let base = if n % 2 == 0 { "INT" } else { "" };
            s.push_str("TYPE\n");
            s.push_str(&format!("T{sp}:{sp}{base}({});{nl}", list(&|i| format!("E{i}"), &comma)));
            s.push_str("END_TYPE\n");
        }
        9 => {
            s.push_str("TYPE\n");
            s.push_str(&format!("T{sp}:{sp}{}.Base{sp}(A,{sp}B{sp}:={sp}2);{nl}", list(&|i| format!("N{i}"), ".")));
            s.push_str("END_TYPE\n");
        }
        10 => {
            s.push_str("PROGRAM Main\nFOR i:=");
            s.push_str(&list(&|i| format!("{i}"), "+"));
            s.push_str(&format!(" TO 10 DO{nl} x{sp}:={sp}i;{nl}END_FOR\nEND_PROGRAM\n"));
        }
        _ => {
            s.push_str("PROGRAM Main\nCASE x OF\n");
            s.push_str(&format!("{}{sp}:{sp}y{sp}:={sp}1;{nl}", list(&|i| format!("{i}"), &comma)));
            s.push_str(&format!("E.A,{sp}E.B{sp}:{sp}y{sp}:={sp}2;{nl}"));
            s.push_str("ELSE y:=3;\nEND_CASE\nEND_PROGRAM\n");
        }
    }
    s
}

fn sweep_edits(n: u16) -> Vec<bulk::Edit> {
    let mut v = Vec::new();
    for f in 0..bulk::VERDICT_FILLERS.len() as u8 {
        v.push(bulk::Edit { mode: 0, filler: f, a: 0, b: 0 });
    }
    for f in [0u8, 2, 4, 7] {
        v.push(bulk::Edit { mode: 6, filler: f, a: 0, b: 0 });
    }
    for f in [0u8, 2, 4] {
        // one filler / a run of 8 in front of every deciding token
        v.push(bulk::Edit { mode: 3, filler: f, a: 0, b: 0 });
        v.push(bulk::Edit { mode: 3, filler: f, a: 7, b: 0 });
    }
    v.push(bulk::Edit { mode: 1, filler: 0, a: n as u32, b: 0 });
    v.push(bulk::Edit { mode: 2, filler: 4, a: 0, b: 1 });
    v
}

fn check_sweep(c: &SweepCase, probe: &mut Probe) -> Result<(), String> {
    let case = BulkCase {
        text: sweep_text(c),
        labels: vec![format!("sweep={}", SWEEP_CONSTRUCTS[c.construct as usize % SWEEP_CONSTRUCTS.len()])],
        edits: sweep_edits(c.n),
    };
    check_bulk(&case, probe, "sweep")
}

fn run(ctx: &mut RunCtx) {
    let tier = ctx.tier;
    let c = corpus();
    ctx.note(format!(
        "corpus: {} .st files from /repo, vocabulary {} items",
        c.files.len(),
        c.vocab.len()
    ));

    // (1) random unicode strings
    let unicode = prop_oneof![
        2 => any::<String>(),
        2 => "[ -~\\n\\r\\t]{0,200}",
        1 => "[\\x00-\\x7f\u{80}-\u{ff}\u{4e00}-\u{4e10}\u{1F600}-\u{1F610}\u{feff}\u{0300}-\u{0305}]{0,120}",
        1 => "([A-Za-z_0-9#%.:;=()\\[\\]'\"*/{}+\\-<> \\n]|\\(\\*|\\*\\)|//){0,160}",
    ];
    ctx.search("unicode", unicode, tier.pick(200_000, 3_000_000), |t: &String, p| {
        basic(t, p, "unicode")
    });

    // (2) token soups
    ctx.search(
        "soup",
        tape_strategy(140).prop_map(|t| soup_from_tape(&t)),
        tier.pick(300_000, 4_000_000),
        |t: &String, p| basic(t, p, "soup"),
    );

    // (3) mutated corpus files
    ctx.search(
        "mutate",
        tape_strategy(40).prop_map(|t| mutate_from_tape(&t)),
        tier.pick(80_000, 1_200_000),
        |t: &String, p| basic(t, p, "mutate"),
    );

    // (4) nesting
    ctx.note(format!(
        "error-free corpus files of at most 12000 bytes (bases of corpus_bulk): {}",
        clean_files().len()
    ));
    let nest = (0u8..12, 0u16..=256, any::<bool>()).prop_map(|(kind, depth, close)| NestCase {
        kind,
        depth,
        close,
    });
    ctx.search("nest", nest, tier.pick(2400, 24000), |c: &NestCase, p| {
        let text = nest_text(c);
        check_text(&text)?;
        p.label(format!("nest_kind={}", c.kind % 12));
        if c.depth >= 32 {
            p.nontrivial(text.as_bytes());
            p.sample(json!({"class": "nest", "kind": c.kind % 12, "depth": c.depth, "closed": c.close}));
        }
        Ok(())
    });
    // the stated depth itself, for every construct (enumerated, worker 0)
    if ctx.worker == 0 && ctx.only_replay.is_none() {
        for kind in 0..12u8 {
            for close in [true, false] {
                let c = NestCase {
                    kind,
                    depth: 256,
                    close,
                };
                let j = serde_json::to_value(&c).unwrap();
                ctx.enumerated("nest", &j, |p| {
                    let text = nest_text(&c);
                    check_text(&text)?;
                    p.nontrivial(text.as_bytes());
                    Ok(())
                });
            }
        }
    }

    // (5) whitespace/comment insertion into error-free inputs
    let ins = (
        tape_strategy(40).prop_map(|t| valid_program_from_tape(&t)),
        proptest::collection::vec((any::<u32>(), 0u8..6), 1..6),
    )
        .prop_map(|(text, ins)| InsCase { text, ins });
    ctx.search("insertion", ins, tier.pick(40_000, 600_000), check_insertion);

    // (6) bulk insertion into generated error-free units with long runs before the
    //     deciding token
    let long = (
        long_tape_strategy().prop_map(|t| long_case(&t)),
        proptest::collection::vec(edit_strategy(), 2..5),
    )
        .prop_map(|((text, labels), edits)| BulkCase { text, labels, edits });
    ctx.search("long_bulk", long, tier.pick(LONG_QUICK, LONG_THOROUGH), |c: &BulkCase, p| {
        check_bulk(c, p, "long")
    });

    // (7) bulk insertion into corpus files, plain or with lengthened constructs
    let cb = (
        tape_strategy(700).prop_map(|t| corpus_case(&t)),
        proptest::collection::vec(edit_strategy(), 1..4),
    )
        .prop_map(|((text, labels), edits)| BulkCase { text, labels, edits });
    ctx.search("corpus_bulk", cb, tier.pick(CORPUS_QUICK, CORPUS_THOROUGH), |c: &BulkCase, p| {
        check_bulk(c, p, "corpus")
    });

    // (8) sweep over run lengths: every length 1..=80 and every second one up to 160
    //     (thorough: 400) for every construct, tight and spaced; random lengths up to 700 in
    //     thorough. The search with the same name claims replay files of this family.
    let sweep = (0u8..SWEEP_CONSTRUCTS.len() as u8, 1u16..=700, 0u8..2)
        .prop_map(|(construct, n, style)| SweepCase { construct, n, style });
    ctx.search("sweep", sweep, tier.pick(0, 6000), check_sweep);
    if ctx.only_replay.is_none() {
        let max_n: u16 = tier.pick(160, 400) as u16;
        let mut k = 0usize;
        for construct in 0..SWEEP_CONSTRUCTS.len() as u8 {
            // one report per construct and worker is enough
            let before = ctx.stats.violations.len();
            'lengths: for n in 1..=max_n {
                // every length up to 80 elements (= 160 significant tokens when tight),
                // every second one above
                if n > 80 && n % 2 == 1 {
                    continue;
                }
                for style in 0..2u8 {
                    k += 1;
                    if k % ctx.nworkers.max(1) != ctx.worker {
                        continue;
                    }
                    let c = SweepCase { construct, n, style };
                    let j = serde_json::to_value(&c).unwrap();
                    ctx.enumerated("sweep", &j, |p| check_sweep(&c, p));
                    if ctx.stats.violations.len() > before {
                        break 'lengths;
                    }
                }
            }
        }
    }
}

const LONG_QUICK: u32 = 24_000;
const LONG_THOROUGH: u32 = 600_000;
const CORPUS_QUICK: u32 = 8_000;
const CORPUS_THOROUGH: u32 = 160_000;
