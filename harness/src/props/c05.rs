//! C05 - execution and compilation are deterministic and reproducible.
//!
//! Differential oracle across SEPARATE OS PROCESSES: every case (a multi-file ST project
//! with many named entities + an input/clock trace) is written to a job file and handed to
//! K >= 3 child processes (`tpv c05-worker <job>`), each started with a different
//! environment size, number of pre-spawned threads and allocation pre-amble. Every child
//! compiles the case twice and runs the trace twice (DebugControl attached) and returns
//! SHA-256 digests of the STBC bytes (whole + per section), of the state dump after every
//! cycle, of the fault list and of the drained runtime events. All 2K observations must
//! agree. On a mismatch the children are run again in `full` mode and the first differing
//! section / dump line is reported.

use std::io::Read;
use std::process::{Command, Stdio};
use std::sync::Mutex;

use proptest::prelude::*;
use serde::{Deserialize, Serialize};
use serde_json::json;

use crate::engine::tape::Tape;
use crate::engine::{verif_root, Probe, PropertyInfo, RunCtx, Tier};

#[path = "c05/child.rs"]
mod child;
#[path = "c05/gen.rs"]
mod gen;

use child::{CaseResult, ChildCase, Job, Rep, RetainCfg};
use gen::{GenStats, SrcFile, Step, Tapes};

pub fn info() -> PropertyInfo {
    PropertyInfo {
        id: "C05",
        level: "exploration",
        rule: "evaluation = a BATCH of 3 different ST projects (generated: 1-4 files, up to 14 TYPEs incl. inline arrays, 10 functions, 4 interfaces, 12 classes/FBs with methods, inheritance and nested instances, 6 programs, 22 globals, tasks, AT bindings, retain variables, namespaces; or project directories / single files of /repo), each with a trace of 2-6 cycles (clock steps, direct-input and global writes), ~2 in 3 with a retain store attached (logging in-memory or FileRetainStore, save interval none/0/1 ms/500 ms/10 s of simulated time; after the trace a fresh runtime loads the store without a final save) and source paths absent / relative / mixed / absolute (files on disk, bundle builder run as well; half of those with a build history of 2-4 successive builds in one bundle root - files added/deleted/replaced, mtimes older/newer/equal to the artefact - whose final program.stbc must equal a single build in a fresh root); 8 % of the generated projects are padded (comments, tiny POUs) to size plans at 4/16/64/256 KiB/1 MiB with 1/2/8/32/100 files, projects >= 64 KiB with < 32 files run three repetitions per child; every project is compiled twice and run twice in each of K>=3 separately started OS processes (different environment size, pre-spawned threads, allocation pre-amble, cwd, TZ, LANG/LC_ALL, HOME, TMPDIR, USER, argv[0], umask, stdin; the last one replays retain traces with real delays between cycles) and every process works through the batch in its own order (as listed / reversed / rotated; one process per three runs each project on a thread of its own, the others the whole batch on one thread), so each project is observed as the first thing a process does and behind one or two unrelated projects; non-trivial = at least two projects of the batch compile with >= 3 POUs and >= 20 interned strings and traces of >= 2 cycles; distinct by SHA-256 of all sources + traces",
        assumptions: &[
            "one machine: differences that need another CPU/endianness/libm are out of reach; pid ranges, rlimits, uid and filesystem type are the same in all children",
            "replay speed is varied (real delays between cycles) only for the 1 ms and 500 ms retain save intervals; the delays are inputs, no wall-clock value is used as an oracle",
            "process history is varied by what the same process compiled/ran before (1-2 other projects of the batch, same thread or earlier threads); longer histories and other API calls before a compilation are not explored",
            "the runtime is driven through CompileSession::build_runtime + Runtime::{advance_time, execute_cycle, io_mut().write, storage_mut().set_global} (what TestHarness does, plus source paths)",
            "the `time` field of every RuntimeEvent is the simulation clock (read in runtime/cycle.rs, core.rs apply_fault) and is compared; RuntimeMetrics (wall-clock durations, only recorded when a metrics sink is installed) are diagnostics, not program state, and are not compared",
        ],
        workers_quick: 8,
        workers_thorough: 8,
        address_space_limit: 0,
        watchdog_quick_s: 1500,
        watchdog_thorough_s: 6 * 3600,
        run,
    }
}

/// Helper subcommands (child processes of this check); None = not mine.
pub fn helper(args: &[String]) -> Option<i32> {
    match args.first().map(|s| s.as_str()) {
        Some("c05-worker") => Some(child::main(args)),
        Some("c05-try") => Some(try_main(args)),
        Some("c05-compile") => {
            let files: Vec<SrcFile> = args[1..].iter().map(|p| SrcFile { path: None, text: std::fs::read_to_string(p).unwrap_or_default(), pad: 0 }).collect();
            let r = child::run_case_dev(&ChildCase { files, trace: vec![Step { dt_ns: 10_000_000, writes: vec![] }, Step { dt_ns: 10_000_000, writes: vec![] }], retain: None, bundle_sources: None, history: None }, true);
            println!("{} {}", r.reps[0].stbc, r.reps[0].full.as_ref().map(|f| f.compile_error.clone()).unwrap_or_default());
            println!("faults: {:?}", r.reps[0].full.as_ref().map(|f| f.faults.clone()));
            Some(0)
        }
        _ => None,
    }
}

#[derive(Clone, Debug, Serialize, Deserialize)]
pub struct Case {
    pub origin: String,
    pub files: Vec<SrcFile>,
    pub trace: Vec<Step>,
    #[serde(default)]
    pub stats: Option<GenStats>,
    /// retain store attached while the trace runs (None = no store)
    #[serde(default)]
    pub retain: Option<RetainCfg>,
    /// successive builds in one bundle root before the final one (projects on disk)
    #[serde(default)]
    pub history: Option<gen::BuildHistory>,
    /// true for cases drawn by the strategy in this run, false for replay files (serde
    /// default) - the shrink budget below must never be started by a failing replay
    #[serde(skip)]
    pub fresh: bool,
}

impl Case {
    /// The case as a child sees it: `@ABS@` in source paths replaced by `abs_root`.
    fn child(&self, abs_root: &str) -> ChildCase {
        let absolute = self.files.iter().any(|f| f.path.as_deref().map(|p| p.starts_with(gen::ABS_PREFIX)).unwrap_or(false));
        ChildCase {
            files: self
                .files
                .iter()
                .map(|f| SrcFile { path: f.path.as_ref().map(|p| p.replacen(gen::ABS_PREFIX, abs_root, 1)), text: f.text.clone(), pad: f.pad })
                .collect(),
            trace: self.trace.clone(),
            retain: self.retain.clone(),
            bundle_sources: if absolute && self.files.iter().all(|f| f.path.is_some()) { Some(abs_root.to_string()) } else { None },
            history: if absolute { self.history.clone() } else { None },
        }
    }
    fn key(&self) -> Vec<u8> {
        let mut k = Vec::new();
        for f in &self.files {
            k.extend_from_slice(f.path.as_deref().unwrap_or("-").as_bytes());
            k.push(0);
            k.extend_from_slice(f.text.as_bytes());
            k.extend_from_slice(&f.pad.to_le_bytes());
            k.push(0);
        }
        k.extend_from_slice(serde_json::to_string(&self.trace).unwrap_or_default().as_bytes());
        k
    }
}

/// What one evaluation works on: a batch of DIFFERENT projects. Every child processes the whole
/// batch, each in its own order, so that the result of a project can be compared between "first
/// thing the process did" and "after one or two unrelated projects on the same thread".
#[derive(Clone, Debug, Serialize, Deserialize)]
pub struct Batch {
    pub cases: Vec<Case>,
    #[serde(skip)]
    pub fresh: bool,
}

#[derive(Clone, Debug, Serialize, Deserialize)]
pub struct CorpusBatch {
    pub picks: Vec<CorpusPick>,
    #[serde(skip)]
    pub fresh: bool,
}

const BATCH: usize = 3;

// --------------------------------------------------------------------------- strategies

fn word() -> impl Strategy<Value = u32> {
    prop_oneof![
        8 => any::<u32>(),
        1 => (0u32..16).prop_map(|v| v << 28),
        1 => Just(0u32),
    ]
}

fn words(n: usize) -> impl Strategy<Value = Tape> {
    proptest::collection::vec(word(), n).prop_map(|data| Tape { data })
}

/// `scale` = upper bounds of the entity counts (types, globals, functions, interfaces,
/// classes/FBs, programs).
fn tapes_sized(scale: [usize; 6]) -> impl Strategy<Value = Tapes> {
    (
        words(20),
        proptest::collection::vec(words(40), 0..=scale[0]),
        proptest::collection::vec(words(8), 0..=scale[1]),
        proptest::collection::vec(words(160), 0..=scale[2]),
        proptest::collection::vec(words(40), 0..=scale[3]),
        proptest::collection::vec(words(420), 0..=scale[4]),
        proptest::collection::vec(words(520), 1..=scale[5]),
        words(120),
        words(40),
        proptest::collection::vec(words(80), 2..=6),
        words(48),
    )
        .prop_map(|(head, types, globals, funcs, itfs, classlikes, programs, config, layout, steps, hist)| Tapes {
            head,
            types,
            globals,
            funcs,
            itfs,
            classlikes,
            programs,
            config,
            layout,
            steps,
            hist,
        })
}

/// Two in three projects are medium sized, one in three large (the large ones are what
/// reorders a hash map with certainty; the medium ones keep the quick tier cheap).
fn tapes_strategy() -> impl Strategy<Value = Tapes> {
    prop_oneof![
        2 => tapes_sized([6, 10, 5, 2, 5, 3]),
        1 => tapes_sized([14, 22, 10, 4, 12, 6]),
    ]
}

fn gen_case_strategy() -> impl Strategy<Value = Case> {
    tapes_strategy().prop_map(|t| {
        let g = gen::generate(&t);
        let retain = g.retain.map(|(interval_ns, file)| RetainCfg { interval_ns, file });
        Case { origin: "generated".into(), files: g.files, trace: g.trace, stats: Some(g.stats), retain, history: g.history, fresh: true }
    })
}

// ------------------------------------------------------------------------------ corpus

struct Project {
    name: String,
    files: Vec<(String, String)>,
}

fn walk(dir: &std::path::Path, out: &mut Vec<std::path::PathBuf>) {
    let Ok(rd) = std::fs::read_dir(dir) else {
        return;
    };
    let mut entries: Vec<_> = rd.flatten().map(|e| e.path()).collect();
    entries.sort();
    for p in entries {
        let name = p.file_name().and_then(|n| n.to_str()).unwrap_or("");
        if name == "target" || name == ".git" || name == "node_modules" {
            continue;
        }
        if p.is_dir() {
            walk(&p, out);
        } else if name.ends_with(".st") || name.ends_with(".ST") {
            out.push(p);
        }
    }
}

/// Every directory of /repo that holds .st files is a project (all its files, sorted);
/// every single .st file is a project of its own as well.
fn corpus_projects() -> Vec<Project> {
    let root = crate::engine::repo_root();
    let mut paths = Vec::new();
    walk(&root, &mut paths);
    let mut by_dir: std::collections::BTreeMap<String, Vec<(String, String)>> = std::collections::BTreeMap::new();
    let mut singles = Vec::new();
    for p in paths {
        let Ok(text) = std::fs::read_to_string(&p) else {
            continue;
        };
        if text.is_empty() || text.len() > 200_000 {
            continue;
        }
        let rel = p.strip_prefix(&root).unwrap_or(&p).display().to_string();
        let dir = p.parent().map(|d| d.strip_prefix(&root).unwrap_or(d).display().to_string()).unwrap_or_default();
        by_dir.entry(dir).or_default().push((rel.clone(), text.clone()));
        singles.push(Project { name: rel.clone(), files: vec![(rel, text)] });
    }
    let mut out = Vec::new();
    for (dir, files) in by_dir {
        if files.len() > 1 {
            out.push(Project { name: format!("{dir}/"), files });
        }
    }
    out.extend(singles);
    out
}

fn corpus_case(p: &Project, steps: &[Tape], path_mode: u8, retain_sel: u8) -> Case {
    use crate::engine::tape::Reader;
    use gen::{Lit, Write};
    let files = p
        .files
        .iter()
        .enumerate()
        .map(|(k, (path, text))| SrcFile {
            path: match path_mode % 3 {
                0 => None,
                1 => Some(path.clone()),
                _ => {
                    let base = path.rsplit('/').next().unwrap_or("f.st");
                    Some(format!("{}/src/u{k:02}_{base}", gen::ABS_PREFIX))
                }
            },
            text: text.clone(),
            pad: 0,
        })
        .collect();
    let retain = match retain_sel % 5 {
        0 | 1 => None,
        2 => Some(RetainCfg { interval_ns: Some(0), file: false }),
        3 => Some(RetainCfg { interval_ns: Some(1_000_000), file: false }),
        _ => Some(RetainCfg { interval_ns: Some(1_000_000), file: true }),
    };
    let mut trace = Vec::new();
    for t in steps {
        let mut r = Reader::new(t);
        let dt = [0i64, 1_000_000, 10_000_000, 20_000_000, 100_000_000, 1_000_000_000, 50_000_001][r.pick(7)];
        let mut writes = Vec::new();
        for bit in 0..4 {
            if r.flag() {
                writes.push(Write::Direct { addr: format!("%IX0.{bit}"), val: Lit::Bool(r.flag()) });
            }
        }
        if r.flag() {
            writes.push(Write::Direct { addr: "%IW2".into(), val: Lit::Int([0i16, 1, 250, -7, 32767][r.pick(5)]) });
        }
        trace.push(Step { dt_ns: dt, writes });
    }
    Case { origin: format!("corpus:{}", p.name), files, trace, stats: None, retain, history: corpus_history(path_mode, retain_sel, p.files.len()), fresh: false }
}

/// A fixed little build history for corpus projects on disk: populate with an extra file,
/// build, then reach the final state by deleting the extra (nothing else changes), build.
fn corpus_history(path_mode: u8, sel: u8, n_files: usize) -> Option<gen::BuildHistory> {
    use gen::{BuildHistory, FileOp, HistStep, MTime};
    if path_mode % 3 != 2 || sel % 2 == 0 {
        return None;
    }
    let mut first: Vec<FileOp> = (0..n_files).map(|f| FileOp::Write { file: f, alt: f == 0 && sel % 3 == 0, mtime: MTime::Now }).collect();
    first.push(FileOp::WriteExtra { k: 0, mtime: MTime::Older });
    Some(BuildHistory {
        steps: vec![HistStep { ops: first }, HistStep { ops: vec![FileOp::SetMtime { file: 0, mtime: if sel % 4 == 1 { MTime::Older } else { MTime::Now } }] }],
    })
}

#[derive(Clone, Debug, Serialize, Deserialize)]
pub struct CorpusPick {
    pub project: usize,
    pub steps: Vec<Tape>,
    /// 0 no paths, 1 repository-relative paths, 2 absolute paths under the batch scratch dir
    pub path_mode: u8,
    /// retain store selector (see corpus_case)
    pub retain_sel: u8,
    #[serde(skip)]
    pub fresh: bool,
}

// ------------------------------------------------------------------------------ oracle

static INFRA: Mutex<Vec<String>> = Mutex::new(Vec::new());

fn infra(msg: String) {
    if let Ok(mut v) = INFRA.lock() {
        if v.len() < 20 {
            v.push(msg);
        }
    }
}

struct Children {
    k: usize,
    job_path: std::path::PathBuf,
    /// `<out>/C05/w<worker>`: `abs/b<j>/src` = sources of project j on disk, `amb/c<i>/...` =
    /// cwd / HOME / TMPDIR / scratch of child i
    work: std::path::PathBuf,
}

/// Ambient process state of child `i`: everything a process inherits and a deterministic
/// toolchain must not let into its output.
struct Ambient {
    cwd: std::path::PathBuf,
    env: Vec<(&'static str, String)>,
    arg0: String,
    umask: u32,
    /// 0 = /dev/null, 1 = open pipe, 2 = closed
    stdin: u8,
}

fn ambient(ch: &Children, i: usize, abs_roots: &[String]) -> Ambient {
    let dir = ch.work.join("amb").join(format!("c{i}"));
    let first_abs = abs_roots.first().cloned().unwrap_or_else(|| "/".into());
    // child 0 works IN the directory the absolute source paths of project #0 live under, child 3
    // in its src/ directory, child 1 in an unrelated scratch directory, child 2 in /
    let cwd = match i % 6 {
        0 => std::path::PathBuf::from(&first_abs),
        1 => dir.join("cwd"),
        2 => std::path::PathBuf::from("/"),
        3 => std::path::Path::new(&first_abs).join("src"),
        4 => std::env::temp_dir(),
        _ => ch.work.clone(),
    };
    let tz = ["UTC", "America/New_York", "Asia/Kolkata", "Pacific/Chatham", "Europe/Berlin", "UTC"][i % 6];
    let lang = ["C", "en_US.UTF-8", "de_DE.UTF-8", "tr_TR.UTF-8", "ja_JP.UTF-8", "POSIX"][i % 6];
    Ambient {
        cwd,
        env: vec![
            ("TZ", tz.to_string()),
            ("LANG", lang.to_string()),
            ("LC_ALL", lang.to_string()),
            ("HOME", dir.join("home").display().to_string()),
            ("TMPDIR", dir.join("tmp").display().to_string()),
            ("USER", format!("plc{i}")),
            ("LOGNAME", format!("plc{i}")),
        ],
        arg0: ["tpv", "/usr/local/bin/st-build", "c05-child", "./a.out", "trust-runtime", "x"][i % 6].to_string(),
        umask: [0o022, 0o077, 0o000, 0o027, 0o002, 0o777][i % 6],
        stdin: (i % 3) as u8,
    }
}

/// Start K children on the job; each gets its own environment size, thread count and
/// allocation pre-amble. Returns per child the per-case results, or an infrastructure error.
/// Order in which child `i` processes a batch of `n` cases: as listed, reversed, and the
/// rotations of both (for n = 3 the six children of the thorough tier cover all six
/// permutations; with the three children of the quick tier every case is the FIRST thing a
/// process does in exactly one child and runs behind one or two other projects in the others).
fn child_order(i: usize, n: usize) -> Vec<usize> {
    let mut v: Vec<usize> = (0..n).collect();
    if n == 0 {
        return v;
    }
    if i % 2 == 1 {
        v.reverse();
    }
    v.rotate_left((i / 2) % n);
    v
}

/// Children 2 and 5 run every case on a thread of its own, the others the whole batch on one.
fn child_separate_threads(i: usize) -> bool {
    i % 3 == 2
}

fn run_children(ch: &Children, cases: &[ChildCase], abs_roots: &[String], full: bool, pause: bool) -> Result<Vec<Vec<CaseResult>>, String> {
    use std::os::unix::process::CommandExt;
    let exe = std::env::current_exe().map_err(|e| format!("current_exe: {e}"))?;
    let mut procs = Vec::new();
    for i in 0..ch.k {
        let job = Job {
            cases: cases.to_vec(),
            full,
            threads: [0usize, 3, 7, 1, 12, 5][i % 6],
            allocs: [0usize, 1500, 9000, 300, 40000, 5][i % 6],
            pause_ms: if pause && i == 1 { 1100 } else { 0 },
            public_api: i == 0,
            order: child_order(i, cases.len()),
            separate_threads: child_separate_threads(i),
            // the last child replays retain traces with real delays between the cycles
            cycle_delays: i == ch.k - 1,
            scratch: ch.work.join("amb").join(format!("c{i}")).join("scratch").display().to_string(),
        };
        let amb = ambient(ch, i, abs_roots);
        for d in ["cwd", "home", "tmp", "scratch"] {
            let _ = std::fs::create_dir_all(ch.work.join("amb").join(format!("c{i}")).join(d));
        }
        let path = ch.job_path.with_extension(format!("{i}.json"));
        std::fs::write(&path, serde_json::to_vec(&job).map_err(|e| e.to_string())?).map_err(|e| format!("write job: {e}"))?;
        let pad = "x".repeat(17 + i * 3001);
        let mut cmd = Command::new(&exe);
        cmd.arg0(&amb.arg0)
            .arg("c05-worker")
            .arg(&path)
            .env("C05_PAD", pad)
            .env(format!("C05_EXTRA_{i}"), "1")
            .current_dir(if amb.cwd.is_dir() { amb.cwd.clone() } else { std::path::PathBuf::from("/") })
            .stdin(if amb.stdin == 1 { Stdio::piped() } else { Stdio::null() })
            .stdout(Stdio::piped())
            .stderr(Stdio::piped());
        for (k, v) in &amb.env {
            cmd.env(k, v);
        }
        let (umask, close_stdin) = (amb.umask, amb.stdin == 2);
        // SAFETY: only async-signal-safe libc calls between fork and exec
        unsafe {
            cmd.pre_exec(move || {
                libc::umask(umask as libc::mode_t);
                if close_stdin {
                    libc::close(0);
                }
                Ok(())
            });
        }
        let child = cmd.spawn().map_err(|e| format!("spawn: {e}"))?;
        procs.push(child);
    }
    let mut out = Vec::new();
    let mut err: Option<String> = None;
    for (i, mut p) in procs.into_iter().enumerate() {
        let mut text = String::new();
        if let Some(mut so) = p.stdout.take() {
            let _ = so.read_to_string(&mut text);
        }
        let mut etext = String::new();
        if let Some(mut se) = p.stderr.take() {
            let _ = se.read_to_string(&mut etext);
        }
        let status = p.wait().map_err(|e| format!("wait: {e}"))?;
        if !status.success() {
            err.get_or_insert(format!("child {i} ended with {status}: {}", etext.lines().last().unwrap_or("")));
            continue;
        }
        match serde_json::from_str::<Vec<CaseResult>>(text.trim()) {
            Ok(r) if r.len() == cases.len() => out.push(r),
            _ => {
                err.get_or_insert(format!("child {i}: unreadable result"));
            }
        }
    }
    match err {
        Some(e) => Err(e),
        None => Ok(out),
    }
}

fn section_name(id: u16) -> &'static str {
    match id {
        1 => "STRING_TABLE",
        2 => "TYPE_TABLE",
        3 => "CONST_POOL",
        4 => "REF_TABLE",
        5 => "POU_INDEX",
        6 => "POU_BODIES",
        7 => "RESOURCE_META",
        8 => "IO_MAP",
        9 => "DEBUG_MAP",
        10 => "DEBUG_STRING_TABLE",
        11 => "VAR_META",
        12 => "RETAIN_INIT",
        _ => "UNKNOWN",
    }
}

/// Which artefact differs between two observations (None = identical).
fn first_difference(a: &Rep, b: &Rep) -> Option<String> {
    if a.stbc != b.stbc {
        if a.stbc.starts_with("PANIC") || b.stbc.starts_with("PANIC") {
            return Some(format!("one observation panicked: {:?} vs {:?}", short(&a.stbc), short(&b.stbc)));
        }
        if a.stbc == "ERR" || b.stbc == "ERR" {
            return Some("the project compiles in one observation and is rejected in the other".into());
        }
        let mut which = Vec::new();
        if a.sections.len() != b.sections.len() {
            which.push(format!("section count {} vs {}", a.sections.len(), b.sections.len()));
        }
        for (x, y) in a.sections.iter().zip(b.sections.iter()) {
            if x != y {
                which.push(format!("{}(0x{:04x})", section_name(x.0), x.0));
            }
        }
        return Some(format!("STBC bytes differ ({} vs {} bytes); differing sections: {}", a.stbc_len, b.stbc_len, which.join(", ")));
    }
    if a.cycles.len() != b.cycles.len() {
        return Some(format!("number of executed cycles differs: {} vs {}", a.cycles.len(), b.cycles.len()));
    }
    for (i, (x, y)) in a.cycles.iter().zip(b.cycles.iter()).enumerate() {
        if x != y {
            return Some(format!("variable state / outputs after cycle {i} differ"));
        }
    }
    if a.faults != b.faults {
        return Some(format!("fault lists differ ({} vs {} entries)", a.fault_count, b.fault_count));
    }
    if a.events != b.events {
        return Some(format!("runtime event sequences differ ({} vs {} events)", a.event_count, b.event_count));
    }
    if a.restored != b.restored {
        return Some(format!(
            "state restored from the retain store after a power loss differs (the store received {} vs {} images)",
            a.stores, b.stores
        ));
    }
    if !a.bundle.is_empty() && !b.bundle.is_empty() && a.bundle != b.bundle {
        return Some("program.stbc written by bundle_builder::build_program_stbc differs".into());
    }
    for x in [a, b] {
        if !x.hist.is_empty() && x.hist != x.hist_fresh {
            return Some(format!(
                "build history: program.stbc after successive builds in one bundle root ({}) differs from a single build of the same final sources in a fresh root ({})",
                short(&x.hist),
                short(&x.hist_fresh)
            ));
        }
    }
    if !a.hist_nodebug.is_empty() && !b.hist_nodebug.is_empty() && a.hist_nodebug != b.hist_nodebug {
        return Some("build history: program.stbc after the history differs between observations (debug path strings excluded)".into());
    }
    None
}

fn short(s: &str) -> String {
    s.chars().take(160).collect()
}

fn line_diff(what: &str, a: &[String], b: &[String]) -> Option<String> {
    let n = a.len().max(b.len());
    for i in 0..n {
        let x = a.get(i).map(|s| s.as_str()).unwrap_or("<end>");
        let y = b.get(i).map(|s| s.as_str()).unwrap_or("<end>");
        if x != y {
            return Some(format!("{what}: first difference at line {i}:\n    A: {}\n    B: {}", short(x), short(y)));
        }
    }
    None
}

/// Small diff between two `full` observations.
fn full_diff(a: &Rep, b: &Rep) -> Option<String> {
    let (fa, fb) = (a.full.as_ref()?, b.full.as_ref()?);
    if a.stbc != b.stbc {
        for (id, la) in &fa.sections {
            let lb = fb.sections.get(id).cloned().unwrap_or_default();
            if let Some(d) = line_diff(&format!("decoded section {}", section_name(*id)), la, &lb) {
                return Some(d);
            }
        }
        if fa.compile_error != fb.compile_error {
            return Some(format!("compile errors: A: {} | B: {}", short(&fa.compile_error), short(&fb.compile_error)));
        }
        return Some("containers differ in bytes but decode to equal sections".into());
    }
    for (i, (ca, cb)) in fa.cycles.iter().zip(fb.cycles.iter()).enumerate() {
        if let Some(d) = line_diff(&format!("state dump after cycle {i}"), ca, cb) {
            return Some(d);
        }
    }
    if let Some(d) = line_diff("fault list", &fa.faults, &fb.faults) {
        return Some(d);
    }
    if let Some(d) = line_diff("runtime events", &fa.events, &fb.events) {
        return Some(d);
    }
    if let Some(d) = line_diff("state restored from the retain store", &fa.restored, &fb.restored) {
        return Some(d);
    }
    if fa.bundle_error != fb.bundle_error {
        return Some(format!("bundle builder: A: {} | B: {}", short(&fa.bundle_error), short(&fb.bundle_error)));
    }
    for (x, fx) in [(a, fa), (b, fb)] {
        if !x.hist.is_empty() && x.hist != x.hist_fresh {
            return Some(format!("build history that ends in a stale artefact:\n    {}", fx.hist_log.join("\n    ")));
        }
    }
    None
}

fn find_mismatch(results: &[Vec<CaseResult>], case_idx: usize) -> Option<(String, (usize, usize), (usize, usize))> {
    let mut obs: Vec<((usize, usize), &Rep)> = Vec::new();
    for (p, r) in results.iter().enumerate() {
        for (k, rep) in r[case_idx].reps.iter().enumerate() {
            obs.push(((p, k), rep));
        }
    }
    let (first_id, first) = obs[0];
    for (id, rep) in obs.iter().skip(1) {
        if let Some(d) = first_difference(first, rep) {
            return Some((d, first_id, *id));
        }
    }
    None
}

fn classify(case: &Case, rep0: &Rep, rep0_reps: usize, probe: &mut Probe) -> bool {
    probe.label(if rep0.stbc == "ERR" { "compile=rejected" } else if rep0.stbc.starts_with("PANIC") { "compile=panic" } else { "compile=ok" });
    let origin = if case.origin.starts_with("corpus") { "corpus" } else { "generated" };
    probe.label(format!("origin={origin}"));
    if rep0.stbc.len() != 64 {
        probe.label(format!("rejected_origin={origin}"));
    }
    probe.label(format!("files={}", case.files.len()));
    probe.label(format!("pous={}", bucket(rep0.pous)));
    probe.label(format!("strings={}", bucket(rep0.strings)));
    probe.label(format!("cycles={}", case.trace.len()));
    probe.label(if rep0.fault_count > 0 { "faults=some" } else { "faults=none" });
    probe.label(format!("sections={}", rep0.sections.len()));
    probe.label(match &case.retain {
        None => "retain_store=none".to_string(),
        Some(c) => format!(
            "retain_store={}{}",
            match c.interval_ns {
                None => "no_interval".to_string(),
                Some(0) => "interval_0".to_string(),
                Some(n) if n % 1_000_000_000 == 0 => format!("interval_{}s", n / 1_000_000_000),
                Some(n) => format!("interval_{}ms", n / 1_000_000),
            },
            if c.file { ",file" } else { ",memory" }
        ),
    });
    if case.retain.is_some() {
        probe.label(format!("retain_images_stored={}", bucket(rep0.stores)));
    }
    let abs = case.files.iter().any(|f| f.path.as_deref().map(|p| p.starts_with(gen::ABS_PREFIX)).unwrap_or(false));
    let some = case.files.iter().any(|f| f.path.is_some());
    let all = case.files.iter().all(|f| f.path.is_some());
    probe.label(format!("source_paths={}", if abs { "absolute" } else if all { "relative" } else if some { "mixed" } else { "none" }));
    if !rep0.bundle.is_empty() {
        probe.label(if rep0.bundle.len() == 64 { "bundle_builder=ok" } else { "bundle_builder=rejected" });
    }
    if let Some(h) = &case.history {
        if !rep0.hist.is_empty() {
            probe.label(format!("build_history={}_builds{}", h.steps.len(), if rep0.hist.len() == 64 { "" } else { ",rejected" }));
        }
    }
    let total: usize = case.files.iter().map(|f| f.text.len() + f.pad as usize).sum();
    probe.label(format!(
        "source_bytes={}",
        match total {
            0..=4095 => "<4K",
            4096..=16383 => "4K-16K",
            16384..=65535 => "16K-64K",
            65536..=262143 => "64K-256K",
            262144..=1048575 => "256K-1M",
            _ => ">=1M",
        }
    ));
    probe.label(format!(
        "file_count={}",
        match case.files.len() {
            1 => "1",
            2 => "2",
            3..=7 => "3-7",
            8..=31 => "8-31",
            32..=99 => "32-99",
            _ => "100+",
        }
    ));
    probe.label(format!("repetitions_per_child={}", rep0_reps));
    if let Some(s) = &case.stats {
        probe.label(if s.configuration { "config=yes" } else { "config=no" });
        probe.label(format!("tasks={}", s.tasks.min(5)));
        probe.label(format!("derived={}", s.derived.min(4)));
        probe.label(format!("background_programs={}", s.background.min(4)));
        probe.label(format!("methods={}", bucket(s.methods)));
        probe.label(format!("namespaces={}", s.namespaces));
        probe.label(if s.io_bindings > 0 { "io_bindings=some" } else { "io_bindings=none" });
        probe.label(if s.retain_vars > 0 { "retain=some" } else { "retain=none" });
        probe.label(format!("aggregate_types={}", bucket(s.aggregate_types)));
    }
    rep0.stbc.len() == 64 && rep0.pous >= 3 && rep0.strings >= 20 && case.trace.len() >= 2
}

fn history(k: usize, n: usize, case_idx: usize, process: usize) -> String {
    let order = child_order(process, n);
    let pos = order.iter().position(|x| *x == case_idx).unwrap_or(0);
    let before: Vec<String> = order[..pos].iter().map(|x| format!("#{x}")).collect();
    format!(
        "process {process} ({}{}, order {:?}: project #{case_idx} ran {})",
        if child_separate_threads(process) { "one thread per project" } else { "whole batch on one thread" },
        format!(
            "{}, cwd {}",
            if process + 1 == k { ", retain traces replayed with real delays between cycles" } else { "" },
            ["= directory above project #0's absolute sources", "= unrelated scratch directory", "= /", "= src/ of project #0's absolute sources", "= temp dir", "= work dir"][process % 6]
        ),
        order,
        if before.is_empty() { "first".to_string() } else { format!("after {}", before.join(", ")) }
    )
}

fn check_batch(ch: &Children, cases: &[Case], probe: &mut Probe) -> Result<(), String> {
    if cases.is_empty() {
        return Ok(());
    }
    // per-batch scratch: project j's absolute source paths live under <work>/abs/b<j>/src and
    // the files are really there (the bundle builder reads them from disk)
    let _ = std::fs::remove_dir_all(ch.work.join("abs"));
    let abs_roots: Vec<String> = (0..cases.len()).map(|j| ch.work.join("abs").join(format!("b{j}")).display().to_string()).collect();
    let ccs: Vec<ChildCase> = cases.iter().zip(abs_roots.iter()).map(|(c, r)| c.child(r)).collect();
    for (cc, root) in ccs.iter().zip(abs_roots.iter()) {
        let _ = std::fs::create_dir_all(std::path::Path::new(root).join("src"));
        if cc.bundle_sources.is_some() {
            for f in &cc.files {
                if let Some(p) = &f.path {
                    let _ = std::fs::write(p, gen::expand(f));
                }
            }
        }
    }
    let mut key = Vec::new();
    for c in cases {
        key.extend_from_slice(&c.key());
        key.push(1);
    }
    // 1 batch in 6 (chosen by its digest): one child pauses 1.1 s between the two repetitions
    // of the first project it processes
    let pause = crate::engine::digest64(&key) % 6 == 0;
    if pause {
        probe.label("wall_clock_pause=1100ms");
    }
    let results = match run_children(ch, &ccs, &abs_roots, false, pause) {
        Ok(r) => r,
        Err(e) => {
            // a child that dies is only a C05 matter if the others do not: decide by re-running once
            match run_children(ch, &ccs, &abs_roots, false, pause) {
                Ok(_) => {
                    return Err(format!("process-dependent failure: a child process failed on this batch ({e}) and succeeded when started again"));
                }
                Err(e2) => {
                    infra(format!("children failed twice on one batch ({}): {e} / {e2}", cases[0].origin));
                    probe.label("infra=child_failed");
                    return Ok(());
                }
            }
        }
    };
    probe.label(format!("batch_size={}", cases.len()));
    let mut good = 0;
    let mut type_tables: Vec<&str> = Vec::new();
    for (j, case) in cases.iter().enumerate() {
        let rep0 = &results[0][j].reps[0];
        if classify(case, rep0, results[0][j].reps.len(), probe) {
            good += 1;
        }
        if let Some((_, d)) = rep0.sections.iter().find(|(id, _)| *id == 2) {
            if !type_tables.contains(&d.as_str()) {
                type_tables.push(d.as_str());
            }
        }
    }
    probe.label(format!("distinct_type_tables_in_batch={}", type_tables.len()));
    if good >= 1 && (good >= 2 || cases.len() == 1) {
        probe.nontrivial(&key);
        let rep0 = &results[0][0].reps[0];
        probe.sample(json!({
            "batch": cases.iter().enumerate().map(|(j, c)| json!({
                "origin": c.origin,
                "files": c.files.len(),
                "source_bytes": c.files.iter().map(|f| f.text.len()).sum::<usize>(),
                "pous": results[0][j].reps[0].pous,
                "strings": results[0][j].reps[0].strings,
                "stbc_bytes": results[0][j].reps[0].stbc_len,
                "cycles": c.trace.len(),
                "stats": c.stats,
            })).collect::<Vec<_>>(),
            "first_stbc_sha256": rep0.stbc,
        }));
    }
    for (j, case) in cases.iter().enumerate() {
        if let Some((what, a, b)) = find_mismatch(&results, j) {
            let mut msg = format!(
                "non-deterministic: {what}\n  project #{j} of a batch of {} ({} project, {} file(s)), repetition {} in {}\n  versus repetition {} in {}",
                cases.len(),
                case.origin,
                case.files.len(),
                a.1,
                history(ch.k, cases.len(), j, a.0),
                b.1,
                history(ch.k, cases.len(), j, b.0)
            );
            // best effort: run again with the artefacts as text and show the first differing line
            if let Ok(full) = run_children(ch, &ccs, &abs_roots, true, pause) {
                let mut obs: Vec<&Rep> = Vec::new();
                for r in &full {
                    for rep in &r[j].reps {
                        obs.push(rep);
                    }
                }
                'outer: for x in 0..obs.len() {
                    for y in x + 1..obs.len() {
                        if first_difference(obs[x], obs[y]).is_some() {
                            if let Some(d) = full_diff(obs[x], obs[y]) {
                                msg.push_str("\n  ");
                                msg.push_str(&d);
                            }
                            break 'outer;
                        }
                    }
                }
            }
            return Err(msg);
        }
    }
    Ok(())
}

/// Shrinking a failing case costs 3 process starts per candidate and the failure is
/// probabilistic (two hash seeds can give the same order), so it is bounded: after the first
/// failure of a fresh case at most SHRINK_BUDGET further candidates (each a whole batch) are evaluated, the rest
/// are not explored (reported as passing to proptest, which then stops at the smallest
/// failing case found so far). Replay files never start or consume the budget.
const SHRINK_BUDGET: usize = 30;
static FAILED: std::sync::atomic::AtomicBool = std::sync::atomic::AtomicBool::new(false);
static AFTER_FAILURE: std::sync::atomic::AtomicUsize = std::sync::atomic::AtomicUsize::new(0);

fn budgeted(fresh: bool, f: impl FnOnce() -> Result<(), String>) -> Result<(), String> {
    use std::sync::atomic::Ordering::SeqCst;
    if fresh && FAILED.load(SeqCst) && AFTER_FAILURE.fetch_add(1, SeqCst) >= SHRINK_BUDGET {
        return Ok(());
    }
    let r = f();
    if fresh && r.is_err() {
        FAILED.store(true, SeqCst);
    }
    r
}

fn reset_budget() {
    use std::sync::atomic::Ordering::SeqCst;
    FAILED.store(false, SeqCst);
    AFTER_FAILURE.store(0, SeqCst);
}

fn bucket(n: usize) -> &'static str {
    match n {
        0 => "0",
        1..=2 => "1-2",
        3..=9 => "3-9",
        10..=19 => "10-19",
        20..=49 => "20-49",
        50..=99 => "50-99",
        100..=199 => "100-199",
        _ => "200+",
    }
}

fn run(ctx: &mut RunCtx) {
    let tier = ctx.tier;
    let k = match tier {
        Tier::Quick => 3,
        Tier::Thorough => 6,
    };
    let job_dir = verif_root().join("out").join("C05");
    let _ = std::fs::create_dir_all(&job_dir);
    let job_dir = job_dir.canonicalize().unwrap_or(job_dir);
    let work = job_dir.join(format!("w{}", ctx.worker));
    let _ = std::fs::remove_dir_all(&work);
    let _ = std::fs::create_dir_all(&work);
    let ch = Children { k, job_path: job_dir.join(format!("job-w{}-{}", ctx.worker, std::process::id())), work };

    // generated batches: BATCH different projects per evaluation
    reset_budget();
    let batch_strategy = proptest::collection::vec(gen_case_strategy(), BATCH).prop_map(|cases| Batch { cases, fresh: true });
    ctx.search("batch", batch_strategy, tier.pick(174, 6_700), |b: &Batch, p| budgeted(b.fresh, || check_batch(&ch, &b.cases, p)));

    let projects = corpus_projects();
    ctx.note(format!("corpus: {} projects (directories with >= 2 .st files + every single .st file of /repo)", projects.len()));
    if !projects.is_empty() {
        let n = projects.len();
        let pick = (0..n, proptest::collection::vec(words(8), 2..=4), 0u8..3, 0u8..5)
            .prop_map(|(i, steps, path_mode, retain_sel)| CorpusPick { project: i, steps, path_mode, retain_sel, fresh: true });
        let strat = proptest::collection::vec(pick, BATCH).prop_map(|picks| CorpusBatch { picks, fresh: true });
        let projects_ref = &projects;
        reset_budget();
        ctx.search("corpus", strat, tier.pick(27, 400), |c: &CorpusBatch, p| {
            let cases: Vec<Case> = c
                .picks
                .iter()
                .map(|k| corpus_case(&projects_ref[k.project.min(projects_ref.len() - 1)], &k.steps, k.path_mode, k.retain_sel))
                .collect();
            budgeted(c.fresh, || check_batch(&ch, &cases, p))
        });
    }
    for i in 0..6 {
        let _ = std::fs::remove_file(ch.job_path.with_extension(format!("{i}.json")));
    }
    let _ = std::fs::remove_dir_all(&ch.work);
    if let Ok(mut v) = INFRA.lock() {
        for m in v.drain(..) {
            ctx.inconclusive(m);
        }
    }
}

/// `tpv c05-try <cases> <seed>`: development aid - generate cases, compile in-process,
/// print acceptance and the first errors.
fn try_main(args: &[String]) -> i32 {
    use proptest::strategy::ValueTree;
    use proptest::test_runner::{Config, RngSeed, TestRunner};
    let n: usize = args.get(1).and_then(|s| s.parse().ok()).unwrap_or(20);
    let seed: u64 = args.get(2).and_then(|s| s.parse().ok()).unwrap_or(1);
    let dump = args.get(3).cloned();
    let mut runner = TestRunner::new(Config { rng_seed: RngSeed::Fixed(seed), failure_persistence: None, ..Config::default() });
    let strat = gen_case_strategy();
    let mut ok = 0;
    let mut errs: std::collections::BTreeMap<String, usize> = std::collections::BTreeMap::new();
    crate::engine::install_quiet_panic_hook();
    for i in 0..n {
        let case = strat.new_tree(&mut runner).unwrap().current();
        let started = std::time::Instant::now();
        let r = child::run_case_dev(&case.child("/nonexistent-abs"), std::env::var("C05_TRY_FAST").is_err());
        let rep = &r.reps[0];
        let bytes: usize = case.files.iter().map(|f| f.text.len() + f.pad as usize).sum();
        if rep.stbc.len() == 64 {
            ok += 1;
            println!(
                "case {i}: ok src={bytes}B files={} stbc={}B pous={} strings={} faults={} events={} {:?} {:?}",
                case.files.len(),
                rep.stbc_len,
                rep.pous,
                rep.strings,
                rep.fault_count,
                rep.event_count,
                started.elapsed(),
                rep.full.as_ref().map(|f| f.faults.first().cloned())
            );
        } else {
            let e = rep.full.as_ref().map(|f| f.compile_error.clone()).unwrap_or_default();
            let e = if e.is_empty() { rep.stbc.clone() } else { e };
            println!("case {i}: REJECTED {}", short(e.lines().next().unwrap_or("")));
            for l in e.lines().take(6) {
                *errs.entry(short(l)).or_default() += 1;
            }
        }
        if let Some(d) = &dump {
            let _ = std::fs::create_dir_all(d);
            for (k, f) in case.files.iter().enumerate() {
                let _ = std::fs::write(format!("{d}/case{i}_{k}.st"), &f.text);
            }
        }
    }
    println!("accepted {ok}/{n}");
    for (e, c) in errs {
        println!("{c:4} {e}");
    }
    0
}
