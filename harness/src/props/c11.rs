//! C11 - STBC container: total decoder/validator, exact round trip, validated means safe.
//!
//! Domain: (1) `raw`: random bytes, random bytes behind a well-formed header/section table
//! (CRC recomputed or CRC flag cleared), and self-contained replay containers; (2) `patch`:
//! byte-level patches of the counts/indices/offsets/lengths/sizes/enum bytes of
//! compiler-emitted containers (field map from an independent layout walker) to hostile
//! values, CRC recomputed or flag cleared; (3) `model`: typed mutation of the decoded
//! `BytecodeModule` (cyclic/deep types, crafted constants, generated instruction streams,
//! hostile task/process-image metadata, dangling indices) followed by `encode()`;
//! (4) `emit`: every program of the corpus (hand-written programs + every .st file, project
//! directory, Markdown block and Rust-test raw string under the repository that compiles);
//! (5) `stgen` / `shape`: the emit direction on generated programs - the shared typed
//! generator and a boundary-shape generator (c11/shapes.rs).
//!
//! Oracles: decode/validate/metadata/encode return (no panic; an abort, stack overflow or
//! allocation failure under RLIMIT_AS kills the worker and is attributed to the journalled
//! case by the engine); for every decoded module m: decode(encode(m)) == m and
//! encode(decode(encode(m))) == encode(m); for every compiled program: validate Ok,
//! decode(e) == m, encode(decode(e)) == e byte for byte; every container that validates is
//! applied with `apply_bytecode_bytes` to a runtime built from its originating program and
//! to an unrelated runtime (hot: one cycle has already run) and three cycles follow - no
//! panic anywhere.

use std::collections::BTreeMap;
use std::sync::OnceLock;

use proptest::prelude::*;
use serde::{Deserialize, Serialize};
use serde_json::json;
use trust_runtime::bytecode::{BytecodeError, BytecodeModule};
use trust_runtime::value::Duration;

use crate::engine::tape::{tape_strategy, Reader, Tape};
use crate::engine::{catch, digest64, Probe, PropertyInfo, RunCtx};

pub mod layout;
pub mod modelmut;
pub mod programs;
pub mod shapes;

use layout::{Field, Kind, Layout};
use programs::{corpus, Prog};

pub fn info() -> PropertyInfo {
    PropertyInfo {
        id: "C11",
        level: "exploration",
        rule: "cases = random / framed-random byte strings, byte-level patches of every count/index/offset/length/size/enum field of compiler-emitted containers (CRC recomputed or CRC flag cleared), typed mutations of the decoded model re-encoded with encode(), and the emit direction over every compiled corpus program, stgen programs (strict dial, widest features) and boundary-shape programs (c11/shapes.rs); non-trivial = the input passes the magic + header + section-table + CRC gate and reaches a section decoder (decode returns Ok or a section-level error), or is a compiled program; distinct by SHA-256 of the container bytes; the classification lists every patched (section, field) class and the decode/validate/apply outcomes",
        assumptions: &[
            "memory proportional to the input is judged by RLIMIT_AS = 1 GiB per worker (>= 2000x the largest input) and an 8 MiB stack",
            "containers declaring a process image above 64 MiB are not applied (counted as apply=skipped_big_image)",
            "emit direction = hand-written programs + repository sources that compile + stgen programs + boundary-shape programs; only what the front end accepts can be judged (rejections are counted)",
            "apply_bytecode_bytes installs task and process-image metadata only; the runtime does not execute container code, so 'safe' is judged on apply + three execute_cycle calls",
        ],
        workers_quick: 8,
        workers_thorough: 16,
        address_space_limit: 1 << 30,
        watchdog_quick_s: 900,
        watchdog_thorough_s: 10_800,
        run,
    }
}

const MAX_IMAGE_BYTES: u64 = 64 << 20;

// ---------------------------------------------------------------------------------------
// outcome naming

pub fn err_name(e: &BytecodeError) -> &'static str {
    match e {
        BytecodeError::InvalidMagic => "InvalidMagic",
        BytecodeError::UnsupportedVersion { .. } => "UnsupportedVersion",
        BytecodeError::InvalidHeader(_) => "InvalidHeader",
        BytecodeError::InvalidChecksum { .. } => "InvalidChecksum",
        BytecodeError::InvalidSectionTable(_) => "InvalidSectionTable",
        BytecodeError::SectionOutOfBounds => "SectionOutOfBounds",
        BytecodeError::SectionOverlap => "SectionOverlap",
        BytecodeError::SectionAlignment => "SectionAlignment",
        BytecodeError::UnexpectedEof => "UnexpectedEof",
        BytecodeError::InvalidSection(_) => "InvalidSection",
        BytecodeError::MissingSection(_) => "MissingSection",
        BytecodeError::InvalidOpcode(_) => "InvalidOpcode",
        BytecodeError::InvalidJumpTarget(_) => "InvalidJumpTarget",
        BytecodeError::InvalidPouId(_) => "InvalidPouId",
        BytecodeError::InvalidIndex { .. } => "InvalidIndex",
    }
}

/// The same judgement on the *text* of a CompileError of a corpus candidate (the corpus is
/// compiled through the harness API, which only keeps the message): a front-end diagnostic
/// is not a BytecodeError at all; "invalid section data: <msg>" is the encoder's or the
/// validator's.
fn compile_error_is_validators(why: &str) -> bool {
    if validator_class(why) {
        return true;
    }
    match why.strip_prefix("invalid section data: ") {
        Some(msg) => !encoder_class(msg),
        None => false,
    }
}

/// Did decoding get past magic, header, section table and CRC and into a section decoder?
fn passed_gate(bytes: &[u8], r: &Result<BytecodeModule, BytecodeError>) -> bool {
    match r {
        Ok(m) => !m.sections.is_empty(),
        Err(e) => {
            bytes.len() >= 24
                && matches!(
                    e,
                    BytecodeError::UnexpectedEof | BytecodeError::InvalidSection(_)
                )
        }
    }
}

/// Messages of `BytecodeModule::validate` (as opposed to "the encoder does not support this
/// construct"): a compile error of this class means the compiler built a container that
/// fails its own validation.
fn validator_class(msg: &str) -> bool {
    const M: &[&str] = &[
        "invalid opcode",
        "invalid jump target",
        "invalid POU id",
        "invalid index",
        "missing required section",
        "unexpected end of input",
        "invalid array bounds",
        "const payload length",
        "unknown primitive",
        "struct/union constant count mismatch",
        "unsupported const type",
        "interface mapping expects interface type",
        "interface mapping slot mismatch",
        "POU code out of bounds",
        "CALL_VIRTUAL expects interface type",
        "CALL_VIRTUAL slot out of range",
        "task references unknown program",
        "invalid retain policy",
        "POU code range overflow",
        "debug map code offset out of bounds",
    ];
    M.iter().any(|m| msg.contains(m))
}

// ---------------------------------------------------------------------------------------
// the oracle on one container

#[derive(Default, Debug, Clone)]
pub struct Outcome {
    pub gate: bool,
    pub decode: String,
    pub validate: String,
    pub metadata: String,
    pub apply: Vec<String>,
}

/// The programs a container is applied to when it has no originating program, and the
/// pool of "unrelated" runtimes.
const OTHERS: &[&str] = &[
    "hand/io_bindings",
    "hand/fb_task",
    "hand/two_tasks_single",
    "hand/retain",
    "hand/counter",
    "hand/fb_methods_timers",
];

fn other_prog(sel: u8, not: Option<&str>) -> Option<&'static Prog> {
    for k in 0..OTHERS.len() {
        let name = OTHERS[(sel as usize + k) % OTHERS.len()];
        if Some(name) == not {
            continue;
        }
        if let Some(p) = programs::hand_prog(name) {
            return Some(p);
        }
    }
    None
}

/// Apply `bytes` to a fresh runtime of `prog` that has already run one cycle, then run three
/// more cycles. Err = a panic (the violation message).
fn apply_to(prog: &Prog, bytes: &[u8], resource: Option<&str>) -> Result<String, String> {
    let mut rt = match catch(|| prog.session().build_runtime()) {
        Ok(Ok(rt)) => rt,
        _ => return Ok("runtime_build_failed".into()),
    };
    // safety net only (corpus programs end their cycle within milliseconds): an endless
    // loop becomes an ExecutionTimeout fault instead of hanging the worker
    rt.set_execution_deadline(Some(std::time::Instant::now() + std::time::Duration::from_secs(10)));
    // hot reload: the runtime is already cycling
    let _ = catch(|| rt.execute_cycle());
    let applied = catch(|| rt.apply_bytecode_bytes(bytes, resource)).map_err(|p| {
        format!(
            "apply_bytecode_bytes panicked on a container that validates (runtime of {}): {p}",
            prog.name
        )
    })?;
    let mut label = match &applied {
        Ok(()) => "Ok".to_string(),
        Err(e) => format!("Err:{}", variant_name(&format!("{e:?}"))),
    };
    for (i, step) in programs::CYCLE_STEPS_NANOS.iter().enumerate() {
        rt.advance_time(Duration::from_nanos(*step));
        let r = catch(|| rt.execute_cycle()).map_err(|p| {
            format!(
                "execute_cycle #{i} panicked after apply_bytecode_bytes returned {label} (runtime of {}): {p}",
                prog.name
            )
        })?;
        if i == 2 {
            label.push_str(if r.is_ok() { "/cycle=Ok" } else { "/cycle=Err" });
        }
    }
    Ok(label)
}

fn variant_name(debug: &str) -> String {
    debug
        .split(|c: char| !(c.is_ascii_alphanumeric() || c == '_'))
        .next()
        .unwrap_or("")
        .to_string()
}

/// All oracles on one byte string. `origin` = the program the container was derived from.
pub fn check_container(bytes: &[u8], origin: Option<&Prog>, other: u8) -> Result<Outcome, String> {
    check_container_opt(bytes, origin, other, true)
}

/// `apply = false`: codec oracles only (used for a generated program that panics in its own
/// cycles without any container involved - that is another property's finding).
pub fn check_container_opt(
    bytes: &[u8],
    origin: Option<&Prog>,
    other: u8,
    apply: bool,
) -> Result<Outcome, String> {
    let mut out = Outcome::default();
    let dec = catch(|| BytecodeModule::decode(bytes)).map_err(|p| format!("decode panicked: {p}"))?;
    out.gate = passed_gate(bytes, &dec);
    let m = match dec {
        Err(e) => {
            out.decode = format!("Err:{}", err_name(&e));
            return Ok(out);
        }
        Ok(m) => m,
    };
    out.decode = "Ok".into();
    let val = catch(|| m.validate()).map_err(|p| format!("validate panicked: {p}"))?;
    out.validate = match &val {
        Ok(()) => "Ok".into(),
        Err(e) => format!("Err:{}", err_name(e)),
    };
    let meta = catch(|| m.metadata()).map_err(|p| format!("metadata panicked: {p}"))?;
    out.metadata = match &meta {
        Ok(_) => "Ok".into(),
        Err(e) => format!("Err:{}", err_name(e)),
    };
    // a decoded module encodes, and the encoding decodes to the same module
    let enc = catch(|| m.encode()).map_err(|p| format!("encode of a decoded module panicked: {p}"))?;
    match enc {
        Err(e) => return Err(format!("encode of a decoded module failed: {e}")),
        Ok(b2) => {
            let d2 = catch(|| BytecodeModule::decode(&b2))
                .map_err(|p| format!("decode(encode(m)) panicked: {p}"))?;
            match d2 {
                Err(e) => return Err(format!("decode(encode(m)) fails with '{e}' for a module m that the decoder itself produced")),
                Ok(m2) => {
                    if modelmut::without_offsets(&m2) != modelmut::without_offsets(&m) {
                        return Err(format!(
                            "decode(encode(m)) != m for a module m that the decoder produced: {}",
                            first_difference(&m, &m2)
                        ));
                    }
                    let b3 = catch(|| m2.encode())
                        .map_err(|p| format!("encode panicked: {p}"))?
                        .map_err(|e| format!("encode(decode(encode(m))) failed: {e}"))?;
                    if b3 != b2 {
                        return Err(format!(
                            "encode(decode(e)) != e for e = encode(m): first difference at byte {}",
                            first_byte_difference(&b2, &b3)
                        ));
                    }
                }
            }
        }
    }
    if val.is_err() || !apply {
        return Ok(out);
    }
    // validated means safe
    if let Ok(meta) = &meta {
        let too_big = meta.resources.iter().any(|r| {
            r.process_image.inputs as u64 + r.process_image.outputs as u64 + r.process_image.memory as u64
                > MAX_IMAGE_BYTES
        });
        if too_big {
            out.apply.push("skipped_big_image".into());
            return Ok(out);
        }
    }
    let resource: Option<String> = match (&meta, other % 4) {
        (Ok(meta), 1) => meta.resources.last().map(|r| r.name.to_string()),
        (_, 2) => Some("NoSuchResource".into()),
        _ => None,
    };
    if let Some(p) = origin {
        out.apply
            .push(format!("own:{}", apply_to(p, bytes, resource.as_deref())?));
    }
    if let Some(p) = other_prog(other, origin.map(|p| p.name.as_str())) {
        out.apply
            .push(format!("other:{}", apply_to(p, bytes, resource.as_deref())?));
    }
    if origin.is_none() {
        if let Some(p) = other_prog(other.wrapping_add(1), None) {
            out.apply
                .push(format!("other:{}", apply_to(p, bytes, resource.as_deref())?));
        }
    }
    Ok(out)
}

fn first_byte_difference(a: &[u8], b: &[u8]) -> String {
    match a.iter().zip(b.iter()).position(|(x, y)| x != y) {
        Some(i) => format!("{i} ({:#04x} vs {:#04x})", a[i], b[i]),
        None => format!("{} (lengths {} vs {})", a.len().min(b.len()), a.len(), b.len()),
    }
}

fn first_difference(a: &BytecodeModule, b: &BytecodeModule) -> String {
    if a.version != b.version {
        return format!("version {:?} vs {:?}", a.version, b.version);
    }
    if a.flags != b.flags {
        return format!("flags {:#x} vs {:#x}", a.flags, b.flags);
    }
    if a.sections.len() != b.sections.len() {
        return format!("{} sections vs {}", a.sections.len(), b.sections.len());
    }
    let a2 = modelmut::without_offsets(a);
    let b2 = modelmut::without_offsets(b);
    for (i, (x, y)) in a2.sections.iter().zip(b2.sections.iter()).enumerate() {
        if x != y {
            let dx = format!("{x:?}");
            let dy = format!("{y:?}");
            let at = dx
                .bytes()
                .zip(dy.bytes())
                .position(|(p, q)| p != q)
                .unwrap_or(dx.len().min(dy.len()));
            let lo = at.saturating_sub(60);
            let cut = |s: &str| {
                let hi = (at + 60).min(s.len());
                let mut lo2 = lo.min(s.len());
                while !s.is_char_boundary(lo2) {
                    lo2 -= 1;
                }
                let mut hi2 = hi;
                while !s.is_char_boundary(hi2) {
                    hi2 -= 1;
                }
                s[lo2..hi2].to_string()
            };
            return format!(
                "section #{i} ({}) differs: ...{}... vs ...{}...",
                layout::section_name(x.id),
                cut(&dx),
                cut(&dy)
            );
        }
    }
    "no difference found outside type offsets".into()
}

fn record(out: &Outcome, bytes: &[u8], class: &str, probe: &mut Probe, sample: serde_json::Value) {
    probe.label(format!("gen={class}"));
    probe.label(format!("decode={}", out.decode));
    if !out.validate.is_empty() {
        probe.label(format!("validate={}", out.validate));
    }
    if !out.metadata.is_empty() && out.validate == "Ok" {
        probe.label(format!("validated.metadata={}", out.metadata));
    }
    for a in &out.apply {
        probe.label(format!("apply={a}"));
    }
    if out.gate {
        probe.label("gate=passed");
        probe.nontrivial(bytes);
        probe.sample(sample);
    } else {
        probe.label("gate=rejected");
    }
}

// ---------------------------------------------------------------------------------------
// (1) raw bytes

#[derive(Clone, Debug, Serialize, Deserialize)]
pub struct RawCase {
    /// container bytes, hex
    pub hex: String,
    /// short generator class (label)
    #[serde(default)]
    pub kind: String,
    /// free text: where a replay container came from
    #[serde(default)]
    pub note: String,
    /// long repetitive stretches elided from `hex` (keeps replay files small): after
    /// decoding `hex`, insert `times` copies of `hex` at byte offset `at`, in order
    #[serde(default, skip_serializing_if = "Vec::is_empty")]
    pub runs: Vec<Run>,
}

#[derive(Clone, Debug, Serialize, Deserialize)]
pub struct Run {
    pub at: usize,
    pub hex: String,
    pub times: usize,
}

impl RawCase {
    pub fn bytes(&self) -> Vec<u8> {
        let mut b = from_hex(&self.hex);
        for run in &self.runs {
            let unit = from_hex(&run.hex);
            let at = run.at.min(b.len());
            let mut ins = Vec::with_capacity(unit.len() * run.times.min(1 << 20));
            for _ in 0..run.times.min(1 << 20) {
                ins.extend_from_slice(&unit);
            }
            b.splice(at..at, ins);
        }
        b
    }
}

fn to_hex(b: &[u8]) -> String {
    let mut s = String::with_capacity(b.len() * 2);
    for x in b {
        s.push_str(&format!("{x:02x}"));
    }
    s
}

fn from_hex(s: &str) -> Vec<u8> {
    let b = s.as_bytes();
    let mut out = Vec::with_capacity(b.len() / 2);
    let v = |c: u8| match c {
        b'0'..=b'9' => c - b'0',
        b'a'..=b'f' => c - b'a' + 10,
        b'A'..=b'F' => c - b'A' + 10,
        _ => 0,
    };
    let mut i = 0;
    while i + 1 < b.len() {
        out.push(v(b[i]) << 4 | v(b[i + 1]));
        i += 2;
    }
    out
}

pub fn fix_crc(bytes: &mut [u8], mode: u8) {
    if bytes.len() < 24 {
        return;
    }
    match mode {
        0 => {
            let off = u32::from_le_bytes([bytes[16], bytes[17], bytes[18], bytes[19]]) as usize;
            if off <= bytes.len() {
                let crc = crc32fast::hash(&bytes[off..]);
                bytes[20..24].copy_from_slice(&crc.to_le_bytes());
            }
        }
        1 => bytes[8] &= !1,
        _ => {}
    }
}

/// Random section payloads behind a well-formed header and section table.
fn framed_from_tape(tape: &Tape) -> Vec<u8> {
    let mut r = Reader::new(tape);
    let nsec = r.pick(7);
    let minor: u16 = [1u16, 1, 1, 0, 2][r.pick(5)];
    let crc_mode = r.weighted(&[3, 2]) as u8;
    let mut payloads: Vec<(u16, Vec<u8>)> = Vec::new();
    for _ in 0..nsec {
        let id = match r.pick(14) {
            v @ 0..=11 => v as u16 + 1,
            12 => 0,
            _ => 0x4242,
        };
        let len = r.pick(48);
        let mut p = Vec::with_capacity(len + 4);
        // leading count: small, or hostile
        let count: u32 = match r.pick(8) {
            0 => 0,
            1 => 1,
            2 => 2,
            3 => 3,
            4 => 0xFFFF_FFF0,
            5 => 0x7FFF_FFFF,
            6 => 0x0100_0000,
            _ => r.word(),
        };
        p.extend_from_slice(&count.to_le_bytes());
        for _ in 0..len {
            let w = r.word();
            // mostly small bytes so that nested counts/lengths stay plausible
            p.push(if w & 0x300 == 0 { (w >> 16) as u8 } else { (w >> 16) as u8 & 0x07 });
        }
        if r.chance(1, 6) {
            p.truncate(r.pick(p.len() + 1));
        }
        payloads.push((id, p));
    }
    let mut bytes = Vec::new();
    bytes.extend_from_slice(b"STBC");
    bytes.extend_from_slice(&1u16.to_le_bytes());
    bytes.extend_from_slice(&minor.to_le_bytes());
    bytes.extend_from_slice(&1u32.to_le_bytes());
    bytes.extend_from_slice(&24u16.to_le_bytes());
    bytes.extend_from_slice(&(payloads.len() as u16).to_le_bytes());
    bytes.extend_from_slice(&24u32.to_le_bytes());
    bytes.extend_from_slice(&0u32.to_le_bytes());
    let mut off = 24 + payloads.len() * 12;
    for (id, p) in &payloads {
        bytes.extend_from_slice(&id.to_le_bytes());
        bytes.extend_from_slice(&0u16.to_le_bytes());
        bytes.extend_from_slice(&(off as u32).to_le_bytes());
        bytes.extend_from_slice(&(p.len() as u32).to_le_bytes());
        off = (off + p.len() + 3) & !3;
    }
    for (_, p) in &payloads {
        bytes.extend_from_slice(p);
        while bytes.len() % 4 != 0 {
            bytes.push(0);
        }
    }
    fix_crc(&mut bytes, crc_mode);
    bytes
}

fn check_raw(case: &RawCase, probe: &mut Probe) -> Result<(), String> {
    let bytes = case.bytes();
    let out = check_container(&bytes, None, bytes.len() as u8)?;
    let class = if case.kind.is_empty() { "raw" } else { case.kind.as_str() };
    record(
        &out,
        &bytes,
        class,
        probe,
        json!({"class": class, "len": bytes.len(), "decode": out.decode, "validate": out.validate}),
    );
    Ok(())
}

// ---------------------------------------------------------------------------------------
// (2) byte-level patches

#[derive(Clone, Debug, Serialize, Deserialize)]
pub struct Patch {
    /// the (section, field) class: section id (0 = header, 0xFFFF = section table) ...
    pub sec: u16,
    /// ... and field name as the layout walker calls it
    pub field: String,
    /// selects the instance of that field
    pub inst: u32,
    /// selects the hostile value
    pub val: u8,
    pub raw: u64,
}

#[derive(Clone, Debug, Serialize, Deserialize)]
pub struct PatchCase {
    pub prog: String,
    pub patches: Vec<Patch>,
    /// 0 none, 1 truncate, 2 append garbage, 3 truncate at a section end
    pub tail: u8,
    pub tail_arg: u32,
    /// 0 recompute CRC, 1 clear the CRC flag, 2 leave the stale CRC
    pub crc: u8,
    pub other: u8,
}

fn layouts() -> &'static BTreeMap<String, Layout> {
    static L: OnceLock<BTreeMap<String, Layout>> = OnceLock::new();
    L.get_or_init(|| {
        corpus()
            .progs
            .iter()
            .map(|p| (p.name.clone(), layout::walk(&p.bytes)))
            .collect()
    })
}

fn scaled(sel: u32, n: usize) -> usize {
    if n == 0 {
        return 0;
    }
    ((sel as u64 * n as u64) >> 32) as usize
}

fn read_le(b: &[u8], off: usize, width: u8) -> u64 {
    let mut v = 0u64;
    for i in 0..width as usize {
        v |= (*b.get(off + i).unwrap_or(&0) as u64) << (8 * i);
    }
    v
}

fn write_le(b: &mut [u8], off: usize, width: u8, v: u64) {
    for i in 0..width as usize {
        if let Some(x) = b.get_mut(off + i) {
            *x = (v >> (8 * i)) as u8;
        }
    }
}

/// The hostile value for one field.
fn hostile_value(f: &Field, lay: &Layout, orig: u64, val: u8, raw: u64) -> u64 {
    let c = &lay.counts;
    let o = orig as u32;
    let pick = |list: &[u64]| list[val as usize % list.len()];
    let idx = |n: u32| -> u64 {
        pick(&[
            0,
            n.wrapping_sub(1) as u64,
            n as u64,
            n.wrapping_add(1) as u64,
            f.entry as u64,
            o.wrapping_add(1) as u64,
            0x7FFF_FFFF,
            0x8000_0000,
            0xFFFF_FFF0,
            0xFFFF_FFFE,
            0xFFFF_FFFF,
            raw % n.max(1) as u64,
        ])
    };
    let v = match (f.kind, f.width) {
        (Kind::Count | Kind::Len, 4) => pick(&[
            0,
            1,
            o.wrapping_sub(1) as u64,
            o.wrapping_add(1) as u64,
            o.wrapping_mul(2) as u64,
            0x7FFF_FFFF,
            0x8000_0000,
            0xFFFF_FFF0,
            0xFFFF_FFFF,
            0x00FF_FFFF,
            0x0001_0000,
            0x1000_0000,
            0x0400_0000,
            raw % (o as u64 + 3),
        ]),
        (Kind::Count | Kind::Len, _) => pick(&[
            0,
            1,
            o.wrapping_sub(1) as u64,
            o.wrapping_add(1) as u64,
            23,
            24,
            25,
            28,
            0x7FFF,
            0xFFFF,
            raw,
        ]),
        (Kind::StrIdx, _) => idx(c.strings),
        (Kind::DbgStrIdx, _) => idx(c.dbg_strings),
        (Kind::TypeIdx, _) => idx(c.types),
        (Kind::ConstIdx, _) => idx(c.consts),
        (Kind::RefIdx, _) => idx(c.refs),
        (Kind::PouId, _) => idx(c.pous),
        (Kind::Offset, _) => pick(&[
            0,
            o.wrapping_add(1) as u64,
            o.wrapping_sub(1) as u64,
            o.wrapping_add(4) as u64,
            o.wrapping_sub(4) as u64,
            c.file_len as u64,
            c.file_len.wrapping_sub(4) as u64,
            c.bodies_len as u64,
            c.bodies_len.wrapping_add(1) as u64,
            20,
            24,
            0x7FFF_FFFC,
            0xFFFF_FFFC,
            0xFFFF_FFFF,
            (raw % c.file_len.max(1) as u64) & !3,
            raw % c.file_len.max(1) as u64,
        ]),
        (Kind::Size, _) => modelmut::IMAGE_SIZES[val as usize % modelmut::IMAGE_SIZES.len()] as u64,
        (Kind::Jump, _) => {
            let pc = f.pc as i64;
            let len = f.code_len as i64;
            let list: [i64; 16] = [
                0,
                -5,
                i32::MAX as i64,
                i32::MIN as i64,
                i32::MAX as i64 - (pc + 5),
                i32::MAX as i64 - (pc + 5) + 1,
                i32::MAX as i64 - 4,
                -(pc + 5),
                -(pc + 6),
                len - (pc + 5),
                len - (pc + 5) + 1,
                len - (pc + 5) - 1,
                (o as i32 as i64) + 1,
                (o as i32 as i64) - 1,
                i32::MIN as i64 + pc + 5,
                raw as i32 as i64,
            ];
            (list[val as usize % list.len()] as i32) as u32 as u64
        }
        (Kind::Enum8, _) => pick(&[0, 1, 2, 3, 4, 5, 6, 10, 11, 0x16, 0x7F, 0x80, 0xFF, raw & 0xFF, (raw >> 8) & 0xFF]),
        (Kind::Reserved, _) => pick(&[1, 0xFF, 0xFFFF, raw]),
        (Kind::I64, _) => {
            let list = modelmut::I64S;
            match val as usize % (list.len() + 2) {
                0 => (orig as i64).wrapping_add(1) as u64,
                1 => (orig as i64).wrapping_sub(1) as u64,
                k => list[k - 2] as u64,
            }
        }
        (Kind::Scalar, 4) => pick(&[
            0,
            1,
            2,
            3,
            o.wrapping_add(1) as u64,
            o.wrapping_sub(1) as u64,
            0x7FFF_FFFF,
            0xFFFF_FFF0,
            0xFFFF_FFFF,
            raw,
        ]),
        (Kind::Scalar, _) => pick(&[0, 1, 2, 3, 13, 14, 24, 25, 26, 27, 28, 0xFF, 0xFFFF, raw]),
    };
    if f.width >= 8 {
        v
    } else {
        v & ((1u64 << (8 * f.width as u32)) - 1)
    }
}

pub fn build_patched(case: &PatchCase) -> Option<(&'static Prog, Vec<u8>, Vec<String>)> {
    let prog = corpus().find(&case.prog)?;
    let lay = layouts().get(&case.prog)?;
    let mut bytes = prog.bytes.clone();
    let mut what = Vec::new();
    for p in &case.patches {
        let Some((key, members)) = lay
            .classes
            .iter()
            .find(|(k, _)| k.0 == p.sec && k.1 == p.field)
        else {
            what.push(format!("(no field {}.{} in this container)", layout::section_name(p.sec), p.field));
            continue;
        };
        let f = &lay.fields[members[scaled(p.inst, members.len())] as usize];
        let orig = read_le(&prog.bytes, f.off, f.width);
        let v = hostile_value(f, lay, orig, p.val, p.raw);
        write_le(&mut bytes, f.off, f.width, v);
        what.push(format!(
            "{}.{}[{}]@{}: {:#x} -> {:#x}",
            layout::section_name(key.0),
            key.1,
            f.entry,
            f.off,
            orig,
            v
        ));
    }
    match case.tail {
        1 => {
            let at = scaled(case.tail_arg, bytes.len() + 1);
            bytes.truncate(at);
            what.push(format!("truncated to {at} bytes"));
        }
        2 => {
            let n = 1 + (case.tail_arg % 9) as usize;
            for i in 0..n {
                bytes.push((case.tail_arg >> (i % 4 * 8)) as u8);
            }
            what.push(format!("appended {n} bytes"));
        }
        3 => {
            if !lay.sections.is_empty() {
                let (_, off, len) = lay.sections[scaled(case.tail_arg, lay.sections.len())];
                let at = (off + len).saturating_sub((case.tail_arg % 3) as usize);
                bytes.truncate(at.min(bytes.len()));
                what.push(format!("truncated at section end {at}"));
            }
        }
        _ => {}
    }
    fix_crc(&mut bytes, case.crc);
    Some((prog, bytes, what))
}

fn check_patch(case: &PatchCase, probe: &mut Probe) -> Result<(), String> {
    let Some((prog, bytes, what)) = build_patched(case) else {
        probe.label("patch=program_not_in_corpus");
        return Ok(());
    };
    let out = check_container(&bytes, Some(prog), case.other)
        .map_err(|e| format!("{e}\n  container = {} with {}", case.prog, what.join("; ")))?;
    for p in &case.patches {
        probe.label(format!("field={}.{}", layout::section_name(p.sec), p.field));
    }
    probe.label(match case.crc {
        0 => "crc=recomputed",
        1 => "crc=flag_cleared",
        _ => "crc=stale",
    });
    record(
        &out,
        &bytes,
        "patch",
        probe,
        json!({"class": "patch", "program": case.prog, "patches": what, "decode": out.decode, "validate": out.validate, "apply": out.apply}),
    );
    Ok(())
}

fn prog_name_strategy() -> impl Strategy<Value = String> {
    let c = corpus();
    let hand: Vec<String> = c
        .progs
        .iter()
        .filter(|p| p.name.starts_with("hand/"))
        .map(|p| p.name.clone())
        .collect();
    let all: Vec<String> = c.progs.iter().map(|p| p.name.clone()).collect();
    let hand = if hand.is_empty() { all.clone() } else { hand };
    prop_oneof![
        1 => proptest::sample::select(hand),
        1 => proptest::sample::select(all),
    ]
}

/// Every (section, field) class of the corpus with the programs that contain it.
fn class_table() -> &'static Vec<((u16, &'static str), Vec<String>)> {
    static T: OnceLock<Vec<((u16, &'static str), Vec<String>)>> = OnceLock::new();
    T.get_or_init(|| {
        let mut map: BTreeMap<(u16, &'static str), Vec<String>> = BTreeMap::new();
        for (name, lay) in layouts() {
            for (k, _) in &lay.classes {
                map.entry(*k).or_default().push(name.clone());
            }
        }
        map.into_iter().collect()
    })
}

/// The first patch picks its field class uniformly over *all* classes of the corpus and then
/// a program that has it (hand-written ones preferred half of the time), so that rare
/// fields (subrange bounds, interface slots, retain-init entries) are patched as often as
/// common ones; further patches pick among the classes of that program.
fn patch_strategy() -> impl Strategy<Value = PatchCase> {
    let sel = (any::<u32>(), any::<u32>(), any::<u8>(), any::<u64>());
    (
        any::<u32>(),
        any::<u32>(),
        any::<bool>(),
        prop_oneof![
            6 => proptest::collection::vec(sel.clone(), 1..2),
            3 => proptest::collection::vec(sel.clone(), 2..3),
            1 => proptest::collection::vec(sel.clone(), 3..5),
            1 => proptest::collection::vec(sel, 0..1),
        ],
        prop_oneof![12 => Just(0u8), 1 => Just(1u8), 1 => Just(2u8), 1 => Just(3u8)],
        any::<u32>(),
        prop_oneof![8 => Just(0u8), 5 => Just(1u8), 1 => Just(2u8)],
        any::<u8>(),
    )
        .prop_map(|(class_sel, prog_sel, prefer_hand, sels, tail, tail_arg, crc, other)| {
            let table = class_table();
            let (first_key, progs) = &table[scaled(class_sel, table.len())];
            let hand: Vec<&String> = progs.iter().filter(|p| p.starts_with("hand/")).collect();
            let prog = if prefer_hand && !hand.is_empty() {
                hand[scaled(prog_sel, hand.len())].clone()
            } else {
                progs[scaled(prog_sel, progs.len())].clone()
            };
            let lay = &layouts()[&prog];
            let mut patches = Vec::new();
            for (i, (c, inst, val, raw)) in sels.into_iter().enumerate() {
                let key = if i == 0 {
                    *first_key
                } else {
                    lay.classes[scaled(c, lay.classes.len())].0
                };
                patches.push(Patch {
                    sec: key.0,
                    field: key.1.to_string(),
                    inst,
                    val,
                    raw,
                });
            }
            PatchCase {
                prog,
                patches,
                tail,
                tail_arg,
                crc,
                other,
            }
        })
}

// ---------------------------------------------------------------------------------------
// (3) typed model mutation

#[derive(Clone, Debug, Serialize, Deserialize)]
pub struct ModelCase {
    pub prog: String,
    pub tape: Tape,
    pub other: u8,
}

pub fn build_model(case: &ModelCase) -> Option<(&'static Prog, BytecodeModule, Vec<String>)> {
    let prog = corpus().find(&case.prog)?;
    let mut m = prog.module.clone();
    let mut r = Reader::new(&case.tape);
    let log = modelmut::mutate(&mut m, &mut r);
    Some((prog, m, log))
}

fn check_model(case: &ModelCase, probe: &mut Probe) -> Result<(), String> {
    let Some((prog, m, log)) = build_model(case) else {
        probe.label("model=program_not_in_corpus");
        return Ok(());
    };
    let ctx = |e: String| format!("{e}\n  model = {} with {}", case.prog, log.join("; "));
    let enc = catch(|| m.encode()).map_err(|p| ctx(format!("encode panicked: {p}")))?;
    let bytes = match enc {
        Ok(b) => b,
        Err(e) => {
            probe.label(format!("gen=model/encode=Err:{}", err_name(&e)));
            return Ok(());
        }
    };
    // decoding an encoded module reproduces the module
    let dec = catch(|| BytecodeModule::decode(&bytes)).map_err(|p| ctx(format!("decode panicked: {p}")))?;
    match dec {
        Err(e) => {
            return Err(ctx(format!(
                "decode(encode(m)) fails with '{e}' for a representable module m"
            )))
        }
        Ok(m2) => {
            if modelmut::without_offsets(&m2) != modelmut::without_offsets(&m) {
                return Err(ctx(format!(
                    "decode(encode(m)) != m: {}",
                    first_difference(&m, &m2)
                )));
            }
        }
    }
    let out = check_container(&bytes, Some(prog), case.other).map_err(ctx)?;
    for l in &log {
        let head: String = l.split(':').next().unwrap_or("").chars().take(24).collect();
        probe.label(format!("model_mut={head}"));
    }
    record(
        &out,
        &bytes,
        "model",
        probe,
        json!({"class": "model", "program": case.prog, "mutations": log, "decode": out.decode, "validate": out.validate, "apply": out.apply}),
    );
    Ok(())
}

// ---------------------------------------------------------------------------------------
// (4) emit direction

/// How far one source text gets through the compiler.
pub enum Emit {
    /// rejected by parser / checker / lowering (no runtime): not this property's business
    FrontEnd(String),
    /// the compiler panicked (C01/C05/C12 territory; counted)
    Panic(String),
    /// the runtime builds but the bytecode encoder does not support a construct
    Encoder(String),
    /// the encoder built a container that fails `validate` (its own self-check)
    Validator(String),
    Ok(Prog),
}

/// Is this error of `BytecodeModule::from_runtime*` one that `validate` raises (as opposed
/// to "the encoder does not support this")?
fn validator_error(e: &BytecodeError) -> bool {
    match e {
        BytecodeError::InvalidSection(msg) => validator_class(msg) || !encoder_class(msg),
        _ => true,
    }
}

/// The encoder's own "I cannot express this" messages (bytecode/encoder/*.rs). Every other
/// message of a failed build comes from the self-check (`module.validate()`), including
/// messages that validate.rs may gain later: an unknown message is judged as the
/// validator's, so that a new validator rule cannot hide behind "unsupported".
fn encoder_class(msg: &str) -> bool {
    const EXACT: &[&str] = &[
        "method id missing",
        "unknown class-like",
        "method owner missing",
        "circular inheritance detected",
        "circular interface inheritance detected",
        "wstring const not supported yet",
        "unresolved IO binding",
        "unknown type id",
        "unknown parent POU",
        "unknown interface",
        "unknown function block",
        "unknown class",
        "program id missing",
        "global reference missing",
        "function id missing",
        "function block id missing",
        "class id missing",
        "debug source missing",
        "debug paths length mismatch",
        "debug path missing",
        "POU code offset",
    ];
    EXACT.contains(&msg)
        || msg.starts_with("unsupported ")
        || msg.starts_with("string const not supported yet")
        || msg.ends_with(" overflow")
}

pub fn emit_source(source: &str) -> Emit {
    let sources = vec![(None, source.to_string())];
    let session = programs::session_for(&sources);
    let rt = match catch(|| session.build_runtime()) {
        Ok(Ok(rt)) => rt,
        Ok(Err(e)) => return Emit::FrontEnd(e.to_string()),
        Err(p) => return Emit::Panic(p),
    };
    let module = match catch(|| BytecodeModule::from_runtime_with_sources(&rt, &[source])) {
        Ok(Ok(m)) => m,
        Ok(Err(e)) if validator_error(&e) => return Emit::Validator(e.to_string()),
        Ok(Err(e)) => return Emit::Encoder(e.to_string()),
        Err(p) => return Emit::Panic(p),
    };
    let bytes = match catch(|| module.encode()) {
        Ok(Ok(b)) => b,
        Ok(Err(e)) => return Emit::Encoder(format!("encode: {e}")),
        Err(p) => return Emit::Panic(p),
    };
    Emit::Ok(Prog {
        name: "generated".into(),
        sources,
        bytes,
        module,
    })
}

fn check_emit(p: &Prog, probe: &mut Probe) -> Result<(), String> {
    check_emit_opt(p, probe, true)
}

fn check_emit_opt(p: &Prog, probe: &mut Probe, apply: bool) -> Result<(), String> {
    let v = catch(|| p.module.validate()).map_err(|e| format!("validate panicked: {e}"))?;
    if let Err(e) = v {
        return Err(format!("validate(compile(p)) = Err({e})"));
    }
    let d = catch(|| BytecodeModule::decode(&p.bytes))
        .map_err(|e| format!("decode panicked: {e}"))?
        .map_err(|e| format!("decode(encode(m)) fails: {e}"))?;
    if d != p.module {
        return Err(format!(
            "decode(encode(m)) != m: {}",
            if modelmut::without_offsets(&d) == modelmut::without_offsets(&p.module) {
                "type offsets differ".to_string()
            } else {
                first_difference(&p.module, &d)
            }
        ));
    }
    let e2 = catch(|| d.encode())
        .map_err(|e| format!("encode panicked: {e}"))?
        .map_err(|e| format!("encode(decode(e)) fails: {e}"))?;
    if e2 != p.bytes {
        return Err(format!(
            "encode(decode(e)) != e: first difference at byte {}",
            first_byte_difference(&p.bytes, &e2)
        ));
    }
    // the layout walker is an independent reading of the format: it must tile every section
    {
        let lay = layout::walk(&p.bytes);
        if !lay.problems.is_empty() {
            probe.label("emit=layout_walker_disagrees");
            return Err(format!(
                "independent layout walk of the emitted container does not tile it: {}",
                lay.problems.join("; ")
            ));
        }
    }
    let out = check_container_opt(
        &p.bytes,
        Some(p),
        (digest64(&p.bytes) & 0xff) as u8,
        apply,
    )?;
    if out.validate != "Ok" {
        return Err(format!("validate(decode(compile(p))) = {}", out.validate));
    }
    if out.metadata != "Ok" {
        return Err(format!("metadata() of a compiler-emitted container = {}", out.metadata));
    }
    let kind = p.name.split('/').next().unwrap_or("");
    probe.label(format!("emit_source={kind}"));
    for s in &p.module.sections {
        probe.label(format!("emit_has={}", layout::section_name(s.id)));
    }
    record(
        &out,
        &p.bytes,
        if p.name == "generated" { "emit_generated" } else { "emit" },
        probe,
        json!({"class": "emit", "program": p.name, "bytes": p.bytes.len(), "apply": out.apply}),
    );
    probe.nontrivial(&p.bytes);
    Ok(())
}

// ---------------------------------------------------------------------------------------
// (5) generated programs: shared stgen + boundary shapes

#[derive(Clone, Debug, Serialize, Deserialize)]
pub struct SourceCase {
    /// "stgen" | "shape"
    pub kind: String,
    /// the ST source (self-contained: a replay does not depend on the generators)
    pub source: String,
    #[serde(default)]
    pub features: Vec<String>,
}

thread_local! {
    /// (generated, rejected by the front end) per kind, for the rejection-rate note
    static SOURCE_COUNTS: std::cell::RefCell<BTreeMap<String, (u64, u64)>> = const { std::cell::RefCell::new(BTreeMap::new()) };
}

fn stgen_config() -> crate::stgen::GenConfig {
    let mut cfg = crate::stgen::GenConfig::strict_core();
    // widest features that compile; larger bodies than the C02 domain (nothing is executed
    // against a reference here)
    cfg.features.pow = true;
    cfg.max_stmts = 40;
    cfg.max_functions = 4;
    cfg.max_fbs = 3;
    cfg.max_vars = 14;
    cfg
}

fn stgen_case(prog_tape: &Tape, trace_tape: &Tape) -> SourceCase {
    let g = crate::stgen::generate(prog_tape, trace_tape, &stgen_config());
    let printed = crate::stgen::print::print_program(&g.program, crate::stgen::print::PrintOpts::default());
    SourceCase {
        kind: "stgen".into(),
        source: printed.source,
        features: Vec::new(),
    }
}

fn shape_case(tape: &Tape) -> SourceCase {
    let mut r = Reader::new(tape);
    let (source, features) = shapes::shape_program(&mut r);
    SourceCase {
        kind: "shape".into(),
        source,
        features: features.iter().map(|f| f.to_string()).collect(),
    }
}

/// Does the program panic in its own cycles, with no container applied? (Then the apply
/// oracle cannot attribute a panic to the container; such programs get the codec oracles
/// only. The same rule the corpus filter uses.)
fn panics_on_its_own(p: &Prog) -> bool {
    catch(|| {
        let Ok(mut rt) = p.session().build_runtime() else {
            return;
        };
        rt.set_execution_deadline(Some(std::time::Instant::now() + std::time::Duration::from_secs(10)));
        let _ = rt.execute_cycle();
        for step in programs::CYCLE_STEPS_NANOS {
            rt.advance_time(Duration::from_nanos(*step));
            let _ = rt.execute_cycle();
        }
    })
    .is_err()
}

fn check_source(case: &SourceCase, probe: &mut Probe) -> Result<(), String> {
    let kind = case.kind.as_str();
    let count = |rejected: bool| {
        SOURCE_COUNTS.with(|c| {
            let mut c = c.borrow_mut();
            let e = c.entry(kind.to_string()).or_default();
            e.0 += 1;
            if rejected {
                e.1 += 1;
            }
        })
    };
    let feats = if case.features.is_empty() {
        kind.to_string()
    } else {
        let mut f = case.features.clone();
        f.sort();
        f.dedup();
        f.join("+")
    };
    let first_line = |e: &str| -> String {
        let l = e.lines().next().unwrap_or("");
        // drop source positions so that the label set stays small
        let l = l.split(" (at ").next().unwrap_or(l);
        let l = l.split(" at ").next().unwrap_or(l);
        l.chars().take(70).collect()
    };
    match emit_source(&case.source) {
        Emit::FrontEnd(e) => {
            count(true);
            probe.label(format!("{kind}_compile=frontend_reject"));
            // message class only (no addresses / names), so that the label set stays small
            let msg = first_line(&e);
            let msg = msg.split(':').next().unwrap_or("").to_string();
            let msg = msg.split('\'').next().unwrap_or("").trim().to_string();
            probe.label(format!("{kind}_reject={msg}"));
            Ok(())
        }
        Emit::Panic(e) => {
            count(true);
            // a front-end panic is C01/C05/C12/C13 territory; keep it visible
            probe.label(format!("{kind}_compile=PANIC: {}", first_line(&e)));
            Ok(())
        }
        Emit::Encoder(e) => {
            count(false);
            probe.label(format!("{kind}_emit=encoder_unsupported: {}", first_line(&e)));
            Ok(())
        }
        Emit::Validator(e) => {
            count(false);
            Err(format!(
                "the compiler built a container that fails its own validation: {e}\n--- source ({feats}) ---\n{}",
                clip(&case.source, 3000)
            ))
        }
        Emit::Ok(p) => {
            count(false);
            let own_panic = panics_on_its_own(&p);
            if own_panic {
                probe.label(format!("{kind}_program=panics_without_container"));
            }
            check_emit_opt(&p, probe, !own_panic).map_err(|e| {
                format!("{e}\n--- source ({feats}) ---\n{}", clip(&case.source, 3000))
            })?;
            probe.label(format!("{kind}_compile=ok"));
            for f in &case.features {
                probe.label(format!("shape_ok={f}"));
            }
            Ok(())
        }
    }
}

fn clip(s: &str, n: usize) -> String {
    if s.len() <= n {
        return s.to_string();
    }
    let mut end = n;
    while !s.is_char_boundary(end) {
        end -= 1;
    }
    format!("{}\n...[{} bytes]", &s[..end], s.len())
}

// ---------------------------------------------------------------------------------------

fn run(ctx: &mut RunCtx) {
    let tier = ctx.tier;
    let c = corpus();
    if c.progs.len() < 20 || c.hand_count() < 10 {
        ctx.inconclusive(format!(
            "program corpus too small: {} programs, {} hand-written",
            c.progs.len(),
            c.hand_count()
        ));
        return;
    }
    let mut by_stage: BTreeMap<&str, usize> = BTreeMap::new();
    for r in &c.rejected {
        *by_stage.entry(r.stage).or_default() += 1;
    }
    ctx.note(format!(
        "corpus: {} candidates, {} compiled programs ({} hand-written), rejected {:?}",
        c.candidates,
        c.progs.len(),
        c.hand_count(),
        by_stage
    ));
    let nclasses: std::collections::BTreeSet<(u16, &str)> = layouts()
        .values()
        .flat_map(|l| l.classes.iter().map(|(k, _)| *k))
        .collect();
    ctx.note(format!(
        "layout walker: {} distinct (section, field) classes over the corpus",
        nclasses.len()
    ));

    // (4) emit direction: every compiled program, split over the workers
    if ctx.only_replay.is_none() {
        for (i, p) in c.progs.iter().enumerate() {
            if i % ctx.nworkers.max(1) != ctx.worker {
                continue;
            }
            let j = json!({"program": p.name});
            ctx.enumerated("emit", &j, |probe| check_emit(p, probe));
        }
        if ctx.worker == 0 {
            for r in &c.rejected {
                if r.stage == "compile" && compile_error_is_validators(&r.why) {
                    let j = json!({"program": r.name});
                    ctx.violation(
                        "emit",
                        &j,
                        &format!(
                            "the compiler built a container that fails its own validation: {}: {}",
                            r.name, r.why
                        ),
                    );
                } else if r.stage == "encode" || r.stage == "compile-panic" {
                    ctx.note(format!("candidate {} rejected at {}: {}", r.name, r.stage, r.why));
                }
            }
        }
    }

    // strict replay of an `emit` violation file ({"program": name})
    if let Some(path) = ctx.only_replay.clone() {
        if let Some(rf) = std::fs::read_to_string(&path)
            .ok()
            .and_then(|t| serde_json::from_str::<crate::engine::ReplayFile>(&t).ok())
        {
            if rf.search == "emit" {
                let name = rf.case.get("program").and_then(|v| v.as_str()).unwrap_or("");
                if let Some(p) = c.find(name) {
                    ctx.stats.replays_run += 1;
                    ctx.enumerated("emit", &rf.case, |probe| check_emit(p, probe));
                } else if let Some(r) = c
                    .rejected
                    .iter()
                    .find(|r| r.name == name && r.stage == "compile" && compile_error_is_validators(&r.why))
                {
                    ctx.stats.replays_run += 1;
                    ctx.violation(
                        "emit",
                        &rf.case,
                        &format!(
                            "the compiler built a container that fails its own validation: {}: {}",
                            r.name, r.why
                        ),
                    );
                } else if c.rejected.iter().any(|r| r.name == name) {
                    // compiles no longer / not at all: nothing emitted, nothing to hold
                    ctx.stats.replays_run += 1;
                }
                return;
            }
        }
    }

    // (1) raw bytes: pure random, random behind "STBC", framed random sections
    let raw = prop_oneof![
        2 => proptest::collection::vec(any::<u8>(), 0..200).prop_map(|b| RawCase { hex: to_hex(&b), kind: "random".into(), note: String::new(), runs: Vec::new() }),
        2 => proptest::collection::vec(any::<u8>(), 0..120).prop_map(|b| {
            let mut v = b"STBC\x01\x00\x01\x00".to_vec();
            v.extend_from_slice(&b);
            fix_crc(&mut v, (b.len() % 2) as u8);
            RawCase { hex: to_hex(&v), kind: "random_after_magic".into(), note: String::new(), runs: Vec::new() }
        }),
        8 => tape_strategy(420).prop_map(|t| RawCase { hex: to_hex(&framed_from_tape(&t)), kind: "framed".into(), note: String::new(), runs: Vec::new() }),
    ];
    ctx.search("raw", raw, tier.pick(20_000, 800_000), check_raw);

    // (2) byte-level patches of compiler-emitted containers
    ctx.search("patch", patch_strategy(), tier.pick(40_000, 1_800_000), check_patch);

    // (5) emit direction on generated programs: shared stgen, boundary shapes
    let stgen = (tape_strategy(700), tape_strategy(8)).prop_map(|(p, t)| stgen_case(&p, &t));
    ctx.search("stgen", stgen, tier.pick(2_000, 80_000), check_source);
    let shape = tape_strategy(90).prop_map(|t| shape_case(&t));
    ctx.search("shape", shape, tier.pick(3_000, 120_000), check_source);
    let counts = SOURCE_COUNTS.with(|c| c.borrow().clone());
    for (kind, (n, rejected)) in counts {
        if kind == "stgen" && n >= 50 && rejected * 2 > n {
            ctx.inconclusive(format!(
                "stgen: {rejected} of {n} generated programs were rejected by the compiler (generator and toolchain disagree)"
            ));
        }
    }

    // (3) typed model mutations
    let model = (prog_name_strategy(), tape_strategy(48), any::<u8>())
        .prop_map(|(prog, tape, other)| ModelCase { prog, tape, other });
    ctx.search("model", model, tier.pick(20_000, 1_200_000), check_model);
}

/// Entry point for the libFuzzer target (`/verif/fuzz`): same oracle, panics on a violation.
pub fn fuzz_one(data: &[u8]) {
    let mut bytes = data.to_vec();
    // last byte chooses the CRC fix-up so that the fuzzer gets past the gate
    if let Some(mode) = bytes.pop() {
        fix_crc(&mut bytes, mode % 3);
    }
    if let Err(e) = check_container(&bytes, None, 0) {
        panic!("C11 violation: {e}");
    }
}

/// Helper subcommands (child processes of this check); None = not mine.
pub fn helper(args: &[String]) -> Option<i32> {
    match args.first().map(|s| s.as_str()) {
        Some("c11-corpus") => {
            crate::engine::install_quiet_panic_hook();
            let t0 = std::time::Instant::now();
            let c = corpus();
            println!(
                "{} candidates, {} programs ({} hand), {} rejected, {:.2}s",
                c.candidates,
                c.progs.len(),
                c.hand_count(),
                c.rejected.len(),
                t0.elapsed().as_secs_f64()
            );
            for p in &c.progs {
                let lay = layout::walk(&p.bytes);
                let t = std::time::Instant::now();
                let _ = apply_to(p, &p.bytes, None);
                let dt = t.elapsed().as_secs_f64() * 1e3;
                println!(
                    "OK  {:70} {:7} bytes {:5} fields {:3} classes apply+cycles {dt:7.2} ms {}",
                    p.name,
                    p.bytes.len(),
                    lay.fields.len(),
                    lay.classes.len(),
                    lay.problems.join("; ")
                );
            }
            for r in &c.rejected {
                println!("REJ {:70} {:14} {}", r.name, r.stage, r.why);
            }
            Some(0)
        }
        // c11-try <file.st>...: compile each file and print how far it gets
        Some("c11-try") => {
            crate::engine::install_quiet_panic_hook();
            for path in &args[1..] {
                let Ok(src) = std::fs::read_to_string(path) else { continue };
                let name = std::path::Path::new(path).file_stem().and_then(|s| s.to_str()).unwrap_or("").to_string();
                let t = std::time::Instant::now();
                let line = match emit_source(&src) {
                    Emit::FrontEnd(e) => format!("frontend-reject  {}", e.lines().next().unwrap_or("")),
                    Emit::Panic(e) => format!("COMPILE-PANIC    {e}"),
                    Emit::Encoder(e) => format!("encoder-reject   {e}"),
                    Emit::Validator(e) => format!("VALIDATOR-REJECT {e}"),
                    Emit::Ok(p) => {
                        let mut probe = Probe::default();
                        match check_emit(&p, &mut probe) {
                            Ok(()) => format!("ok {} bytes", p.bytes.len()),
                            Err(e) => format!("EMIT-VIOLATION   {e}"),
                        }
                    }
                };
                println!("{name:28} {:7.1} ms  {line}", t.elapsed().as_secs_f64() * 1e3);
            }
            Some(0)
        }
        // c11-fuzz <runs> [seed]: bounded libFuzzer campaign on /verif/fuzz (target stbc_decode),
        // seeded with the corpus containers. Cannot run inside a worker (RLIMIT_AS); meant to
        // be called by ./check in the thorough tier. Exit 0 held / 1 VIOLATION / 2 could not run.
        Some("c11-fuzz") => {
            crate::engine::install_quiet_panic_hook();
            let runs: u64 = args.get(1).and_then(|s| s.parse().ok()).unwrap_or(1_000_000);
            let seed: u64 = args
                .get(2)
                .and_then(|s| s.parse().ok())
                .or_else(|| std::env::var("VERIF_SEED").ok().and_then(|s| s.parse().ok()))
                .unwrap_or(20260925);
            let root = crate::engine::verif_root();
            let fuzz_dir = std::env::var("TPV_FUZZ_DIR")
                .map(std::path::PathBuf::from)
                .unwrap_or_else(|_| root.join("fuzz"));
            if !fuzz_dir.join("Cargo.toml").exists() {
                eprintln!("INCONCLUSIVE: no fuzz crate at {}", fuzz_dir.display());
                return Some(2);
            }
            let work = fuzz_dir.join("corpus-run").join("stbc_decode");
            let _ = std::fs::remove_dir_all(&work);
            let _ = std::fs::create_dir_all(&work);
            for (i, p) in corpus().progs.iter().enumerate() {
                // trailing byte = CRC mode (0 recompute); see fuzz_one
                let mut b = p.bytes.clone();
                b.push(0);
                let _ = std::fs::write(work.join(format!("seed-{i:04}")), b);
            }
            let artifacts = fuzz_dir.join("corpus-run").join("artifacts");
            let _ = std::fs::remove_dir_all(&artifacts);
            let _ = std::fs::create_dir_all(&artifacts);
            let target_dir = std::env::var("TPV_FUZZ_TARGET_DIR")
                .map(std::path::PathBuf::from)
                .unwrap_or_else(|_| fuzz_dir.join("target"));
            let harness_dir = fuzz_dir.parent().map(|p| p.join("harness")).unwrap_or_else(|| root.join("harness"));
            let status = std::process::Command::new("cargo")
                .current_dir(&harness_dir)
                .env("RUSTFLAGS", "--cfg trust_platform_verif")
                .env("CARGO_TARGET_DIR", &target_dir)
                .env("CARGO_NET_OFFLINE", "true")
                .args(["+nightly", "fuzz", "run", "--fuzz-dir"])
                .arg(&fuzz_dir)
                .arg("stbc_decode")
                .arg(&work)
                .arg("--")
                .arg(format!("-runs={runs}"))
                .arg(format!("-seed={}", seed & 0xffff_ffff))
                .arg("-max_len=65536")
                .arg("-rss_limit_mb=2048")
                .arg("-malloc_limit_mb=1024")
                .arg("-timeout=120")
                .arg("-print_final_stats=1")
                .arg(format!("-artifact_prefix={}/", artifacts.display()))
                .status();
            let found: Vec<std::path::PathBuf> = std::fs::read_dir(&artifacts)
                .map(|rd| rd.flatten().map(|e| e.path()).collect())
                .unwrap_or_default();
            if !found.is_empty() {
                let out_dir = root.join("out").join("C11");
                let _ = std::fs::create_dir_all(&out_dir);
                for a in found {
                    let Ok(mut bytes) = std::fs::read(&a) else { continue };
                    if let Some(mode) = bytes.pop() {
                        fix_crc(&mut bytes, mode % 3);
                    }
                    let name = format!("viol-fuzz-{:016x}.json", digest64(&bytes));
                    let rec = json!({
                        "property": "C11",
                        "search": "raw",
                        "expect": "pass",
                        "message": format!("libFuzzer artifact {}", a.file_name().and_then(|n| n.to_str()).unwrap_or("")),
                        "case": {"hex": to_hex(&bytes), "kind": "libfuzzer", "note": "libFuzzer stbc_decode"},
                    });
                    let path = out_dir.join(name);
                    let _ = std::fs::write(&path, serde_json::to_string_pretty(&rec).unwrap());
                    println!("VIOLATION property=C11 replay={}", path.display());
                }
                return Some(1);
            }
            match status {
                Ok(s) if s.success() => {
                    println!("C11 libFuzzer stbc_decode: {runs} runs, seed {seed}, no crash");
                    Some(0)
                }
                Ok(s) => {
                    eprintln!("INCONCLUSIVE: cargo fuzz exited with {s} and left no artifact");
                    Some(2)
                }
                Err(e) => {
                    eprintln!("INCONCLUSIVE: cannot run cargo fuzz: {e}");
                    Some(2)
                }
            }
        }
        // c11-repro <dir>: write the self-contained reproducers of F16/F17/F18 as raw replays
        Some("c11-repro") => {
            crate::engine::install_quiet_panic_hook();
            let dir = std::path::PathBuf::from(args.get(1)?);
            let _ = std::fs::create_dir_all(&dir);
            let write = |name: &str, message: &str, bytes: &[u8], note: &str| {
                let out = json!({
                    "property": "C11",
                    "search": "raw",
                    "expect": "pass",
                    "message": message,
                    "case": {"hex": to_hex(bytes), "kind": "replay", "note": note},
                });
                let _ = std::fs::write(dir.join(name), serde_json::to_string_pretty(&out).unwrap());
            };
            let patch = |prog: &str, sec: u16, field: &str, val: u8, crc: u8| PatchCase {
                prog: prog.into(),
                patches: vec![Patch {
                    sec,
                    field: field.into(),
                    inst: 0,
                    val,
                    raw: 0,
                }],
                tail: 0,
                tail_arg: 0,
                crc,
                other: 0,
            };
            // F16: CONST_POOL count = 0xFFFFFFF0, CRC flag cleared
            let (_, b, what) = build_patched(&patch("hand/counter", 3, "count", 7, 1))?;
            write(
                "f16-const-pool-count-crc-flag-cleared.json",
                "F16: decode aborts (memory allocation of 137438952960 bytes failed): Vec::with_capacity(untrusted count)",
                &b,
                &what.join("; "),
            );
            // F16 with a recomputed CRC, nested count (REF_TABLE segment_count = 0x7FFFFFFF)
            let (_, b, what) = build_patched(&patch("hand/io_bindings", 4, "segment_count", 5, 0))?;
            write(
                "f16-ref-segment-count-crc-recomputed.json",
                "F16: decode aborts on a nested count (REF_TABLE segment_count) behind a valid CRC",
                &b,
                &what.join("; "),
            );
            // F18: first jump of hand/control_flow gets offset i32::MAX
            let (_, b, what) = build_patched(&patch("hand/control_flow", 6, "code.jump_offset", 2, 0))?;
            write(
                "f18-jump-offset-i32-max.json",
                "F18: validate panics 'attempt to add with overflow' computing pc + 5 + offset in i32",
                &b,
                &what.join("; "),
            );
            // F17: alias -> itself, array of itself (deep, acyclic in the payload)
            use trust_runtime::bytecode::{ConstEntry, SectionData, SectionId, TypeData, TypeEntry, TypeKind};
            let base = corpus().find("hand/counter")?;
            for (name, msg, deep) in [
                ("f17-alias-to-itself.json", "F17: validate overflows the stack on a constant whose type is an alias of itself", false),
                ("f17-array-of-itself-deep-payload.json", "F17: validate overflows the stack on a constant of a self-containing array type with 120000 nested counts", true),
            ] {
                let mut m = base.module.clone();
                let mut id = 0u32;
                if let Some(SectionData::TypeTable(t)) = m.section_mut(SectionId::TypeTable) {
                    id = t.entries.len() as u32;
                    t.entries.push(if deep {
                        TypeEntry {
                            kind: TypeKind::Array,
                            name_idx: None,
                            data: TypeData::Array {
                                elem_type_id: id,
                                dims: vec![(0, 0)],
                            },
                        }
                    } else {
                        TypeEntry {
                            kind: TypeKind::Alias,
                            name_idx: None,
                            data: TypeData::Alias { target_type_id: id },
                        }
                    });
                }
                if let Some(SectionData::ConstPool(pool)) = m.section_mut(SectionId::ConstPool) {
                    let mut payload = Vec::new();
                    for _ in 0..if deep { 120_000 } else { 1 } {
                        payload.extend_from_slice(&1u32.to_le_bytes());
                    }
                    pool.entries.push(ConstEntry { type_id: id, payload });
                }
                let bytes = m.encode().ok()?;
                if deep {
                    // elide the 120000 x "01 00 00 00" stretch (keep the first and last unit)
                    let unit = 1u32.to_le_bytes();
                    let needle: Vec<u8> = unit.iter().copied().cycle().take(4 * 1000).collect();
                    let start = bytes.windows(needle.len()).position(|w| w == &needle[..])?;
                    let mut end = start;
                    while bytes.get(end..end + 4) == Some(&unit[..]) {
                        end += 4;
                    }
                    let times = (end - start) / 4 - 2;
                    let mut short = bytes[..start + 4].to_vec();
                    short.extend_from_slice(&bytes[start + 4 + times * 4..]);
                    let case = RawCase {
                        hex: to_hex(&short),
                        kind: "replay".into(),
                        note: "hand/counter + array-of-itself type + constant with 120000 nested counts".into(),
                        runs: vec![Run {
                            at: start + 4,
                            hex: to_hex(&unit),
                            times,
                        }],
                    };
                    assert_eq!(case.bytes(), bytes);
                    let out = json!({"property": "C11", "search": "raw", "expect": "pass", "message": msg, "case": case});
                    let _ = std::fs::write(dir.join(name), serde_json::to_string_pretty(&out).unwrap());
                } else {
                    write(name, msg, &bytes, "hand/counter + alias-of-itself type + constant of that type");
                }
            }
            Some(0)
        }
        // c11-to-raw <replay-or-violation file of search patch/model>: print the same
        // container as a self-contained `raw` replay file
        Some("c11-to-raw") => {
            crate::engine::install_quiet_panic_hook();
            let path = args.get(1)?;
            let text = std::fs::read_to_string(path).ok()?;
            let rf: crate::engine::ReplayFile = serde_json::from_str(&text).ok()?;
            let (bytes, note) = match rf.search.as_str() {
                "patch" => {
                    let case: PatchCase = serde_json::from_value(rf.case.clone()).ok()?;
                    let (_, b, what) = build_patched(&case)?;
                    (b, format!("{}: {}", case.prog, what.join("; ")))
                }
                "model" => {
                    let case: ModelCase = serde_json::from_value(rf.case.clone()).ok()?;
                    let (_, m, log) = build_model(&case)?;
                    (m.encode().ok()?, format!("{}: {}", case.prog, log.join("; ")))
                }
                _ => return Some(2),
            };
            let out = json!({
                "property": "C11",
                "search": "raw",
                "expect": "pass",
                "message": rf.message,
                "case": {"hex": to_hex(&bytes), "kind": "replay", "note": note},
            });
            println!("{}", serde_json::to_string_pretty(&out).unwrap());
            Some(0)
        }
        _ => None,
    }
}
