//! Hand-built reproducers (AST form) for the findings of C02. `tpv c02-mkreplays [dir]`
//! writes them as replay files (default /verif/replays/C02); they carry the AST, so they do
//! not depend on the generator's tape mapping.

use serde_json::json;

use crate::engine::tape::Tape;
use crate::stgen::ast::*;
use crate::stgen::print::{print_program, PrintOpts};

use super::Case;

fn var(name: &str, e: Elem, init: Option<Val>) -> VarDecl {
    VarDecl {
        name: name.into(),
        ty: Ty::Elem(e),
        kind: VarKind::Local,
        role: Role::Data,
        init: init.map(Expr::Lit),
        constant: false,
    }
}

fn kind(mut v: VarDecl, k: VarKind) -> VarDecl {
    v.kind = k;
    v
}

fn role(mut v: VarDecl, r: Role) -> VarDecl {
    v.role = r;
    v
}

fn rd(n: &str) -> Expr {
    Expr::Read(Place::var(n))
}

fn int(e: Elem, v: i128) -> Expr {
    Expr::Lit(Val::Int(e, v))
}

fn bin(op: BinOp, a: Expr, b: Expr) -> Expr {
    Expr::Bin(op, Box::new(a), Box::new(b))
}

fn assign(t: &str, v: Expr) -> StmtKind {
    StmtKind::Assign { target: Place::var(t), value: v }
}

fn number(stmts: Vec<StmtKind>, next: &mut u32) -> Vec<Stmt> {
    stmts
        .into_iter()
        .map(|kind| {
            let id = *next;
            *next += 1;
            let kind = match kind {
                StmtKind::For { var, from, to, by, body } => {
                    let body = number(body.into_iter().map(|s| s.kind).collect(), next);
                    StmtKind::For { var, from, to, by, body }
                }
                other => other,
            };
            Stmt { id, kind }
        })
        .collect()
}

fn raw(kind: StmtKind) -> Stmt {
    Stmt { id: 0, kind }
}

fn program(pous: Vec<Pou>) -> Program {
    Program { types: vec![], pous, globals: vec![], instances: vec![("Main".into(), "Main".into())] }
}

fn pou(kind: PouKind, name: &str, vars: Vec<VarDecl>, body: Vec<StmtKind>, next: &mut u32) -> Pou {
    Pou { kind, name: name.into(), ret: None, vars, body: number(body, next) }
}

fn reproducers_all() -> Vec<(&'static str, &'static str, Program, usize)> {
    let mut out = Vec::new();
    // F1: unary minus on the type minimum
    {
        let mut n = 0;
        let main = pou(
            PouKind::Program,
            "Main",
            vec![var("x", Elem::SInt, Some(Val::Int(Elem::SInt, -128))), var("y", Elem::SInt, None), var("n", Elem::Int, None)],
            vec![assign("n", bin(BinOp::Add, rd("n"), int(Elem::Int, 1))), assign("y", Expr::Un(UnOp::Neg, Box::new(rd("x"))))],
            &mut n,
        );
        out.push(("F1-unary-minus-type-minimum", "y := -x with x = SINT#-128 must raise Overflow (was: panic 'attempt to negate with overflow')", program(vec![main]), 1));
    }
    // F2: FOR increment leaves LINT
    {
        let mut n = 0;
        let main = pou(
            PouKind::Program,
            "Main",
            vec![role(var("i", Elem::LInt, None), Role::ForControl), var("n", Elem::Int, None)],
            vec![StmtKind::For {
                var: "i".into(),
                from: int(Elem::LInt, 9223372036854775800),
                to: int(Elem::LInt, i64::MAX as i128),
                by: Some(int(Elem::LInt, 5)),
                body: vec![raw(assign("n", bin(BinOp::Add, rd("n"), int(Elem::Int, 1))))],
            }],
            &mut n,
        );
        out.push(("F2-for-increment-overflow-lint", "FOR i := LINT#9223372036854775800 TO LINT#max BY LINT#5 runs twice, then the increment raises Overflow (was: panic 'attempt to add with overflow')", program(vec![main]), 1));
    }
    // F2b: ULINT bounds above i64::MAX
    {
        let mut n = 0;
        let main = pou(
            PouKind::Program,
            "Main",
            vec![role(var("i", Elem::ULInt, None), Role::ForControl), var("n", Elem::Int, None)],
            vec![StmtKind::For {
                var: "i".into(),
                from: int(Elem::ULInt, u64::MAX as i128 - 3),
                to: int(Elem::ULInt, u64::MAX as i128 - 1),
                by: Some(int(Elem::ULInt, 1)),
                body: vec![raw(assign("n", bin(BinOp::Add, rd("n"), int(Elem::Int, 1))))],
            }],
            &mut n,
        );
        out.push(("F2-for-ulint-above-i64-max", "FOR over ULINT values above i64::MAX iterates 3 times (was: TypeMismatch, bounds were cast to i64)", program(vec![main]), 2));
    }
    // F22: REAL overflow
    {
        let mut n = 0;
        let main = pou(
            PouKind::Program,
            "Main",
            vec![var("r", Elem::Real, Some(Val::real(3.0e38))), var("s", Elem::Real, None)],
            vec![assign("s", bin(BinOp::Mul, rd("r"), Expr::Lit(Val::real(10.0))))],
            &mut n,
        );
        out.push(("F22-real-overflow-stores-infinity", "s := r * REAL#10.0 with r = 3.0E38 must raise Overflow (was: stored REAL infinity)", program(vec![main]), 1));
    }
    // F29: FB invocation with an empty argument list
    {
        let mut n = 0;
        let fb = pou(
            PouKind::FunctionBlock,
            "FB0",
            vec![
                kind(var("v", Elem::Int, None), VarKind::Input),
                kind(var("q", Elem::Int, None), VarKind::Output),
                var("acc", Elem::Int, None),
            ],
            vec![assign("acc", bin(BinOp::Add, bin(BinOp::Add, rd("acc"), rd("v")), int(Elem::Int, 1))), assign("q", rd("acc"))],
            &mut n,
        );
        let main = pou(
            PouKind::Program,
            "Main",
            vec![VarDecl { name: "fb".into(), ty: Ty::Fb("FB0".into()), kind: VarKind::Local, role: Role::Data, init: None, constant: false }],
            vec![StmtKind::FbCall { inst: Place::var("fb"), fb: "FB0".into(), args: vec![] }],
            &mut n,
        );
        out.push(("F29-fb-call-with-empty-argument-list", "`fb();` runs the function block with its preset inputs (was: InvalidArgumentCount)", program(vec![fb, main]), 2));
    }
    // F30: inputs start with the declared initial value and keep their value when omitted
    {
        let mut n = 0;
        let fb = pou(
            PouKind::FunctionBlock,
            "FB0",
            vec![
                kind(var("v", Elem::Int, Some(Val::Int(Elem::Int, 7))), VarKind::Input),
                kind(var("q", Elem::Int, None), VarKind::Output),
                var("acc", Elem::Int, None),
            ],
            vec![assign("acc", bin(BinOp::Add, rd("acc"), rd("v"))), assign("q", rd("acc"))],
            &mut n,
        );
        let call = |args: Vec<Arg>| StmtKind::FbCall { inst: Place::var("fb"), fb: "FB0".into(), args };
        let main = pou(
            PouKind::Program,
            "Main",
            vec![
                VarDecl { name: "fb".into(), ty: Ty::Fb("FB0".into()), kind: VarKind::Local, role: Role::Data, init: None, constant: false },
                var("y", Elem::Int, None),
                VarDecl { name: "fb2".into(), ty: Ty::Fb("FB0".into()), kind: VarKind::Local, role: Role::Data, init: None, constant: false },
            ],
            vec![
                call(vec![Arg { param: "q".into(), val: ArgVal::Out(Place::var("y")) }]),
                call(vec![Arg { param: "v".into(), val: ArgVal::In(int(Elem::Int, 2)) }]),
                call(vec![Arg { param: "q".into(), val: ArgVal::Out(Place::var("y")) }]),
            ],
            &mut n,
        );
        out.push(("F30-fb-inputs-initial-value-and-keep-value", "fb(q => y); fb(v := 2); fb(q => y); with v : INT := 7 gives acc = 7, 9, 11 and the never-called fb2.v = 7 (was: declared initial value ignored at instantiation, omitted input reset on every call)", program(vec![fb, main]), 2));
    }
    // F31: ULINT subscript above i64::MAX
    {
        let mut n = 0;
        let arr = VarDecl {
            name: "a".into(),
            ty: Ty::Array { dims: vec![(-2, -1)], elem: Box::new(Ty::Elem(Elem::Int)) },
            kind: VarKind::Local,
            role: Role::Data,
            init: None,
            constant: false,
        };
        let main = pou(
            PouKind::Program,
            "Main",
            vec![arr, var("u", Elem::ULInt, Some(Val::Int(Elem::ULInt, u64::MAX as i128))), var("y", Elem::Int, Some(Val::Int(Elem::Int, 5)))],
            vec![StmtKind::Assign {
                target: Place::var("y"),
                value: Expr::Read(Place { base: "a".into(), path: vec![Sel::Index(vec![rd("u")])] }),
            }],
            &mut n,
        );
        out.push(("F31-ulint-subscript-wraps-negative", "y := a[u] with a : ARRAY[-2..-1] and u = ULINT#18446744073709551615 must raise IndexOutOfBounds (was: the subscript wrapped to -1 and the element was read)", program(vec![main]), 1));
    }
    // F8 (open): implicit conversion at assignment - the variable ends up holding the
    // expression's type. Implicit dial: the literal is untyped.
    {
        let mut n = 0;
        let main = pou(
            PouKind::Program,
            "Main",
            vec![var("x", Elem::Int, None), var("r", Elem::Real, None), var("i", Elem::Int, Some(Val::Int(Elem::Int, 7)))],
            vec![
                assign("x", bin(BinOp::Add, rd("x"), Expr::Untyped(Val::Int(Elem::Int, 1)))),
                assign("r", rd("i")),
            ],
            &mut n,
        );
        out.push(("F8-assignment-keeps-expression-type", "x : INT; x := x + 1; r : REAL; r := i; - the reference stores INT#1 and REAL#7.0, the runtime stores DINT#1 and INT#7 (the value keeps the type of the expression)", program(vec![main]), 1));
    }
    out
}

pub fn write_replays(dir: Option<&str>) -> i32 {
    let dir = dir.unwrap_or("/verif/replays/C02");
    if std::fs::create_dir_all(dir).is_err() {
        return 2;
    }
    for (name, what, prog, cycles) in reproducers_all() {
        let open = name.starts_with("F8");
        let trace: Trace = (0..cycles).map(|_| CycleInput { writes: vec![], dt_ns: 1_000_000 }).collect();
        let source = print_program(&prog, PrintOpts::default()).source;
        let case = Case {
            prog_tape: Tape { data: vec![] },
            trace_tape: Tape { data: vec![] },
            print_bits: 0,
            dial: if open { "implicit".into() } else { "strict".into() },
            program: Some(prog),
            trace: Some(trace),
            source,
        };
        let rec = json!({
            "property": "C02",
            "search": if open { "implicit" } else { "strict" },
            "expect": if open { format!("known:{name}") } else { "pass".to_string() },
            "message": what,
            "case": case
        });
        let path = format!("{dir}/{name}.json");
        if std::fs::write(&path, serde_json::to_string_pretty(&rec).unwrap_or_default()).is_err() {
            return 2;
        }
        println!("wrote {path}");
    }
    0
}
