//! Enumerated boundary grid: for every integer type x every binary operator (+ - * / MOD and
//! the six comparisons) x operand pairs from {min, min+1, -1, 0, 1, max-1, max} (unsigned:
//! {0, 1, 2, max-1, max}), plus unary minus and ABS on those values, plus REAL/LREAL with
//! {-MAX, -1, 0, MIN_POSITIVE, 1, 2, MAX}: a one-statement program `r := a op b`, compared
//! against stref (value or fault class). Each combination is run twice: operands injected
//! through the input trace (variables) and operands as literals (synthesised where the value
//! has no literal form). This decides the whole "paired extremes" class instead of sampling it.

use serde::{Deserialize, Serialize};

use crate::engine::{catch, Probe};
use crate::stgen::ast::*;
use crate::stgen::print::{print_program, PrintOpts};
use crate::stgen::rt::{Real, RealFault};

#[derive(Clone, Debug, Serialize, Deserialize)]
pub struct GridCase {
    pub ty: Elem,
    /// "+", "-", "*", "/", "MOD", "<", ..., "neg", "ABS"
    pub op: String,
    pub a: Val,
    /// Second operand (ignored by the unary operators).
    pub b: Val,
    /// true: operands are variables written by the trace; false: literals.
    pub via_trace: bool,
}

pub const BIN_OPS: [BinOp; 11] = [
    BinOp::Add,
    BinOp::Sub,
    BinOp::Mul,
    BinOp::Div,
    BinOp::Mod,
    BinOp::Lt,
    BinOp::Le,
    BinOp::Gt,
    BinOp::Ge,
    BinOp::Eq,
    BinOp::Ne,
];

fn values(e: Elem) -> Vec<Val> {
    match e {
        Elem::Real => [-f32::MAX, -1.0, 0.0, f32::MIN_POSITIVE, 1.0, 2.0, f32::MAX].iter().map(|v| Val::real(*v)).collect(),
        Elem::LReal => [-f64::MAX, -1.0, 0.0, f64::MIN_POSITIVE, 1.0, 2.0, f64::MAX].iter().map(|v| Val::lreal(*v)).collect(),
        t => {
            let (lo, hi) = t.int_range();
            let raw: Vec<i128> = if t.is_signed_int() { vec![lo, lo + 1, -1, 0, 1, hi - 1, hi] } else { vec![0, 1, 2, hi - 1, hi] };
            raw.into_iter().map(|v| Val::Int(t, v)).collect()
        }
    }
}

pub fn all_cases() -> Vec<GridCase> {
    let mut out = Vec::new();
    let mut types: Vec<Elem> = INT_TYPES.to_vec();
    types.push(Elem::Real);
    types.push(Elem::LReal);
    for ty in types {
        let vals = values(ty);
        for via_trace in [true, false] {
            for op in BIN_OPS {
                if op == BinOp::Mod && !ty.is_int() {
                    continue;
                }
                for a in &vals {
                    for b in &vals {
                        out.push(GridCase { ty, op: op.symbol().to_string(), a: a.clone(), b: b.clone(), via_trace });
                    }
                }
            }
            for a in &vals {
                if ty.is_signed_int() || ty.is_real() {
                    out.push(GridCase { ty, op: "neg".into(), a: a.clone(), b: a.clone(), via_trace });
                }
                out.push(GridCase { ty, op: "ABS".into(), a: a.clone(), b: a.clone(), via_trace });
            }
        }
    }
    out
}

fn var(name: &str, e: Elem) -> VarDecl {
    VarDecl { name: name.into(), ty: Ty::Elem(e), kind: VarKind::Local, role: Role::Data, init: None, constant: false }
}

pub fn build(c: &GridCase) -> Result<(Program, Trace), String> {
    let bin = BIN_OPS.iter().copied().find(|o| o.symbol() == c.op);
    let res_ty = match bin {
        Some(o) if o.is_cmp() => Elem::Bool,
        _ => c.ty,
    };
    let (ea, eb) = if c.via_trace {
        (Expr::Read(Place::var("a")), Expr::Read(Place::var("b")))
    } else {
        (Expr::Lit(c.a.clone()), Expr::Lit(c.b.clone()))
    };
    let value = match (bin, c.op.as_str()) {
        (Some(o), _) => Expr::Bin(o, Box::new(ea), Box::new(eb)),
        (None, "neg") => Expr::Un(UnOp::Neg, Box::new(ea)),
        (None, "ABS") => Expr::Std(StdFn::Abs, vec![ea]),
        _ => return Err(format!("unknown operator {}", c.op)),
    };
    let body = vec![
        Stmt { id: 0, kind: StmtKind::Assign { target: Place::var("done"), value: Expr::Lit(Val::Int(Elem::Int, 1)) } },
        Stmt { id: 1, kind: StmtKind::Assign { target: Place::var("r"), value } },
        Stmt { id: 2, kind: StmtKind::Assign { target: Place::var("done"), value: Expr::Lit(Val::Int(Elem::Int, 2)) } },
    ];
    let main = Pou {
        kind: PouKind::Program,
        name: "Main".into(),
        ret: None,
        vars: vec![var("a", c.ty), var("b", c.ty), var("r", res_ty), var("done", Elem::Int)],
        body,
    };
    let prog = Program { types: vec![], pous: vec![main], globals: vec![], instances: vec![("Main".into(), "Main".into())] };
    let w = |v: &str, val: &Val| InputWrite { instance: "Main".into(), var: v.into(), value: val.clone() };
    let trace = vec![CycleInput { writes: vec![w("a", &c.a), w("b", &c.b)], dt_ns: 1_000_000 }];
    Ok((prog, trace))
}

/// ABS of a signed type's minimum: the reference does not decide the result (docs/specs/07
/// §12: saturate, wrap or error). Asserted: no panic, and either an Overflow fault or a stored
/// value of the declared type that is the minimum (wrap) or the maximum (saturation).
fn check_abs_min(c: &GridCase, prog: &Program, trace: &Trace) -> Result<(), String> {
    let src = print_program(prog, PrintOpts::default()).source;
    let mut real = match catch(|| Real::compile(&src)) {
        Ok(Ok(r)) => r,
        Ok(Err(_)) => return Ok(()),
        Err(p) => return Err(format!("the compiler panicked: {p}\n{src}")),
    };
    real.apply(prog, &trace[0]).map_err(|e| format!("{e}\n{src}"))?;
    let fault = catch(|| real.cycle(5_000)).map_err(|p| format!("ABS({}) panicked: {p}\n{src}", c.a.show()))?;
    match fault {
        Some(RealFault::Kind(crate::stgen::rt::FaultKind::Overflow)) => Ok(()),
        Some(other) => Err(format!("ABS({}) raises {other:?} (expected Overflow or a saturated/wrapped value)\n{src}", c.a.show())),
        None => {
            let snap = crate::stgen::rt::snapshot(&real.harness, prog);
            let (lo, hi) = c.ty.int_range();
            match snap.get("Main.r") {
                Some(Val::Int(t, n)) if *t == c.ty && (*n == lo || *n == hi) => Ok(()),
                other => Err(format!("ABS({}) stores {:?}\n{src}", c.a.show(), other.map(|v| v.show()))),
            }
        }
    }
}

pub fn check(c: &GridCase, probe: &mut Probe) -> Result<(), String> {
    let (prog, trace) = build(c)?;
    probe.label(format!("grid:{}:{}", c.op, c.ty.name()));
    probe.label(if c.via_trace { "grid:via_trace" } else { "grid:literals" });
    let key = format!("{:?}", c);
    if c.op == "ABS" && c.ty.is_signed_int() {
        if let Val::Int(t, n) = &c.a {
            if *n == t.int_range().0 {
                probe.label("grid:ABS(min):not_decided_by_reference");
                probe.nontrivial(key.as_bytes());
                return check_abs_min(c, &prog, &trace);
            }
        }
    }
    let v = super::compare(&prog, &trace, PrintOpts::default())?;
    for l in v.labels {
        if l.starts_with("fault=") || l.starts_with("rejected") || l == "internal_error" {
            probe.label(format!("grid:{l}"));
        }
    }
    probe.nontrivial(key.as_bytes());
    Ok(())
}
