//! C20 - resource threads: consistent shared globals; pause/resume/stop always work.
//!
//! A case is a command script over 2-4 `ResourceRunner`s spawned with `spawn_with_shared`
//! over one `SharedGlobals` (see `c20/script.rs`); every script is repeated many times so
//! that the OS varies the interleaving. The rig (`c20/rig.rs`) instruments each resource
//! from the outside only (an `IoDriver` that sees cycle start/end and the private counters
//! in the output image, a counting `RetainStore`) and evaluates history invariants after
//! all threads are joined and on samples taken while they run.

use std::sync::atomic::{AtomicBool, AtomicU32, Ordering::SeqCst};
use std::sync::Mutex;

use proptest::prelude::*;
use serde_json::json;

use crate::engine::tape::tape_strategy;
use crate::engine::{Probe, PropertyInfo, RunCtx};

#[path = "c20/rig.rs"]
mod rig;
#[path = "c20/script.rs"]
mod script;

use rig::{run_rep, run_ticks, RepEnd};
use script::{normalise, script_from_tape, Script};
use serde::{Deserialize, Serialize};

pub fn info() -> PropertyInfo {
    PropertyInfo {
        id: "C20",
        level: "exploration",
        rule: "case = command script (pause/resume/stop/clock advance/gate open/sample at generated moments with generated yields, spins and sleeps) over 2-4 resource threads sharing 1-2 counters, 1-3 variable pairs and non-monotone state (last-writer id + sequence number, a BOOL flag, a req/sent/handled handshake), repeated `reps` times against fresh threads; plus single-threaded cases `ticks` (the same programs ticked with tick_with_shared in generated orders and in every order of 6 ticks of 2-3 runners), which never count as non-trivial; non-trivial = in one repetition at least 2 resources completed cycles between the first and the last command AND at least one pause() or stop() call was made while a cycle of the addressed resource was in flight (the cycle had started before the call and had not finished after it); distinct by SHA-256 of the script",
        assumptions: &[
            "real OS threads: interleavings are perturbed (generated yields/spins/sleeps, repetition, oversubscribed workers), not enumerated or controlled",
            "liveness is judged by progress wherever the loop gives a bound: more than 50 further loop iterations (calls of Clock::now, one per iteration) or cycle starts after pause()/resume()/stop() returned without the command showing is a violation, independent of machine speed",
            "wall clock only as a last resort for a thread that shows no progress at all (stop()+join(), progress of the others after a foreign fault): 120 s and 60 000 controller sleep ticks (normal < 100 ms); exceeded once = inconclusive, twice in a row for the same script = violation",
            "resources are observed from outside only: IoDriver callbacks (cycle start/end, private counters in the output image), a counting RetainStore, ResourceControl::state/last_error, SharedGlobals::get",
            "the generated fault precedes every shared write of its cycle; what a cycle that faults half-way writes back is not asserted",
        ],
        workers_quick: 4,
        workers_thorough: 12,
        address_space_limit: 0,
        watchdog_quick_s: 900,
        watchdog_thorough_s: 7200,
        run,
    }
}

/// Messages of liveness bounds exceeded once (reported as inconclusive after the search).
static INCONCLUSIVE: Mutex<Vec<String>> = Mutex::new(Vec::new());
static INFRA: Mutex<Vec<String>> = Mutex::new(Vec::new());
/// Set once a hang was confirmed: further evaluations (shrinking) are skipped, a 20 s
/// candidate is too expensive to shrink.
static HANG_CONFIRMED: AtomicBool = AtomicBool::new(false);
/// Evaluations after the first failure (shrinking budget).
static FAILED: AtomicBool = AtomicBool::new(false);
static AFTER_FAIL: AtomicU32 = AtomicU32::new(0);
const SHRINK_BUDGET: u32 = 150;

fn fail(msg: String) -> Result<(), String> {
    FAILED.store(true, SeqCst);
    Err(msg)
}

fn check_script(case: &Script, probe: &mut Probe) -> Result<(), String> {
    if HANG_CONFIRMED.load(SeqCst) {
        return Ok(());
    }
    if FAILED.load(SeqCst) && AFTER_FAIL.fetch_add(1, SeqCst) >= SHRINK_BUDGET {
        return Ok(());
    }
    let Some(s) = normalise(case) else {
        probe.label("script=unusable");
        return Ok(());
    };
    probe.label(format!("clock={}", ["std", "manual", "manual_shared"][s.clock.min(2) as usize]));
    probe.label(format!("interval_ns={}", s.interval_ns));
    probe.label(format!("resources={}", s.resources.len()));
    probe.label(if s.any_gated() { "gate=yes" } else { "gate=no" });
    probe.label(if s.fault_res().is_some() { "fault=yes" } else { "fault=no" });
    if s.resources.iter().any(|r| r.task_us > 0) {
        probe.label("has_task_bound_program");
    }
    if s.resources.iter().any(|r| r.fault_restart && r.fault_at.is_some()) {
        probe.label("fault_policy=restart");
    }
    if s.resources.iter().any(|r| r.watchdog_restart_ns.is_some()) {
        probe.label("watchdog=restart");
    }
    let mut nontrivial = false;
    let mut best = None;
    for rep in 0..s.reps {
        let mut end = run_rep(&s);
        if let RepEnd::Hang(first) = end {
            // the bound *is* the property, but one miss may be the machine: same script again
            end = match run_rep(&s) {
                RepEnd::Hang(second) => {
                    HANG_CONFIRMED.store(true, SeqCst);
                    return fail(format!(
                        "repetition {rep}: hang confirmed (twice in a row for the same script): {first} / again: {second}"
                    ));
                }
                other => {
                    INCONCLUSIVE.lock().unwrap().push(format!("hang seen once, not repeated on the immediate re-run: {first}"));
                    other
                }
            };
        }
        match end {
            RepEnd::Ok(st) => {
                if st.overlapped >= 2 {
                    probe.label("rep:overlap>=2");
                }
                if st.inflight_pause {
                    probe.label("rep:pause_landed_in_cycle");
                }
                if st.inflight_stop {
                    probe.label("rep:stop_landed_in_cycle");
                }
                if st.windows > 0 {
                    probe.label("rep:paused_window_checked");
                }
                if st.fault_observed {
                    probe.label("rep:fault_observed_live");
                }
                if st.others_progressed {
                    probe.label("rep:others_progressed_after_fault");
                }
                if st.faulted_final {
                    probe.label("rep:ended_with_faulted_resource");
                }
                if st.stop_while_paused {
                    probe.label("rep:stop_while_paused");
                }
                if st.stop_while_gated {
                    probe.label("rep:stop_while_gated");
                }
                if st.poll_saw_stopped {
                    probe.label("rep:stopped_seen_before_join");
                }
                if st.samples > 0 {
                    probe.label("rep:sampled");
                }
                if st.chased {
                    probe.label("rep:wake_chased_by_subinterval_advance");
                }
                if st.restart_signals > 0 {
                    probe.label("rep:restart_signal_raised");
                }
                if st.fault_restarts > 0 {
                    probe.label("rep:fault_restarted(FaultPolicy::Restart)");
                }
                if st.log_truncated {
                    probe.label("rep:cycle_log_truncated");
                }
                if st.pause_unobserved {
                    probe.label("rep:paused_not_seen_within_2s");
                }
                probe.label("rep:total");
                if st.overlapped >= 2 && (st.inflight_pause || st.inflight_stop) {
                    nontrivial = true;
                    best = Some(st);
                }
            }
            RepEnd::Violation(m) => return fail(format!("repetition {rep}: {m}")),
            RepEnd::Hang(m) => {
                INCONCLUSIVE.lock().unwrap().push(format!("hang seen on the re-run only: {m}"));
            }
            RepEnd::Infra(m) => {
                INFRA.lock().unwrap().push(m);
                probe.label("infra_problem");
                return Ok(());
            }
        }
    }
    if nontrivial {
        let key = serde_json::to_vec(&s).unwrap_or_default();
        probe.nontrivial(&key);
        if let Some(st) = best {
            probe.sample(json!({
                "clock": s.clock, "interval_ns": s.interval_ns, "resources": s.resources.len(),
                "ops": s.ops.len(), "reps": s.reps, "cycles_in_one_rep": st.cycles,
                "script": serde_json::to_value(&s).unwrap_or_default(),
            }));
        }
    }
    Ok(())
}

/// Case of the single-threaded sub-search: the programs of `script` (its ops are ignored), one
/// runner per resource, ticked with `tick_with_shared` in the given order.
#[derive(Clone, Debug, Serialize, Deserialize)]
pub struct TickCase {
    pub script: Script,
    pub order: Vec<u8>,
}

fn check_ticks(case: &TickCase, probe: &mut Probe) -> Result<(), String> {
    let Some(mut s) = normalise(&case.script) else {
        probe.label("ticks=unusable");
        return Ok(());
    };
    s.ops.clear();
    if case.order.len() > 64 {
        return Ok(());
    }
    match run_ticks(&s, &case.order) {
        RepEnd::Ok(_) => {
            probe.label(format!("ticks:runners={}", s.resources.len()));
            probe.label(format!("ticks:len={}", case.order.len().min(12)));
            Ok(())
        }
        RepEnd::Violation(m) => Err(format!("single-threaded tick_with_shared: {m}")),
        RepEnd::Hang(m) | RepEnd::Infra(m) => {
            INFRA.lock().unwrap().push(m);
            probe.label("infra_problem");
            Ok(())
        }
    }
}

/// Helper subcommands: `tpv c20-show <seed words...>` is not needed; None = not mine.
pub fn helper(args: &[String]) -> Option<i32> {
    if args.first().map(|s| s.as_str()) == Some("c20-list") {
        // tpv c20-list <seed> <nworkers> <cases> <reps>: print the scripts every worker generates
        let seed: u64 = args.get(1)?.parse().ok()?;
        let nworkers: usize = args.get(2)?.parse().ok()?;
        let cases: u32 = args.get(3)?.parse().ok()?;
        let reps: u16 = args.get(4)?.parse().ok()?;
        for w in 0..nworkers {
            let mut ctx = RunCtx::new("C20-list", crate::engine::Tier::Quick, seed, w, nworkers);
            let strat = tape_strategy(220).prop_map(move |t| script_from_tape(&t, reps));
            let idx = std::cell::Cell::new(0u32);
            ctx.search("scripts", strat, cases, |s: &Script, _p| {
                println!("{}", json!({"worker": w, "index": idx.get(), "script": s}));
                idx.set(idx.get() + 1);
                Ok(())
            });
        }
        return Some(0);
    }
    if args.first().map(|s| s.as_str()) != Some("c20-source") {
        return None;
    }
    // print the ST sources of a replay file's script (debugging aid)
    let path = args.get(1)?;
    let text = std::fs::read_to_string(path).ok()?;
    let v: serde_json::Value = serde_json::from_str(&text).ok()?;
    let s: Script = serde_json::from_value(v.get("case")?.clone()).ok()?;
    let s = normalise(&s)?;
    for i in 0..s.resources.len() {
        println!("(* resource {i} *)\n{}", script::source_for(&s, i));
    }
    Some(0)
}

fn run(ctx: &mut RunCtx) {
    let reps: u16 = ctx.tier.pick(20, 50) as u16;
    let strat = tape_strategy(220).prop_map(move |t| script_from_tape(&t, reps));
    ctx.search("scripts", strat, ctx.tier.pick(96, 2000), check_script);

    // Single-threaded, deterministic: the same programs ticked with tick_with_shared.
    // (a) generated programs and orders
    // order symbols: 0..3 = tick of that runner, 0x80|i = warm, 0xC0|i = cold restart of its runtime
    let symbol = prop_oneof![5 => 0u8..4, 1 => (0u8..4).prop_map(|i| 0x80 | i), 1 => (0u8..4).prop_map(|i| 0xC0 | i)];
    let tick_strat = (tape_strategy(60), proptest::collection::vec(symbol, 1..13))
        .prop_map(|(t, order)| TickCase { script: script_from_tape(&t, 1), order });
    ctx.search("ticks", tick_strat, ctx.tier.pick(240, 4000), check_ticks);
    // (b) every order of 6 ticks of 2 and of 3 runners (the invariants are evaluated after each
    // tick, so every shorter order is covered as a prefix), on two fixed program sets
    if ctx.only_replay.is_none() {
        let mut index = 0usize;
        for variant in 0..2u32 {
            for runners in [2usize, 3] {
                let tape = crate::engine::tape::Tape { data: vec![0x4000_0000 * variant + 0x1000_0000; 8] };
                let mut script = script_from_tape(&tape, 1);
                script.ops.clear();
                while script.resources.len() > runners {
                    script.resources.pop();
                }
                while script.resources.len() < runners {
                    let mut extra = script.resources[script.resources.len() - 2].clone();
                    extra.producer = script.resources.len() % 2 == 0;
                    extra.flag_val = !extra.flag_val;
                    script.resources.push(extra);
                }
                for r in script.resources.iter_mut() {
                    r.gated = false;
                    r.fault_at = None;
                    r.task_us = 0;
                }
                let total = (runners as u32).pow(6);
                for code in 0..total {
                    index += 1;
                    if index % ctx.nworkers.max(1) != ctx.worker {
                        continue;
                    }
                    if ctx.stats.violations.len() >= 3 {
                        // enough evidence from this worker; every further order would only
                        // add another VIOLATION line for the same defect
                        break;
                    }
                    let mut c = code;
                    let order: Vec<u8> = (0..6)
                        .map(|_| {
                            let d = (c % runners as u32) as u8;
                            c /= runners as u32;
                            d
                        })
                        .collect();
                    let case = TickCase { script: script.clone(), order };
                    let j = serde_json::to_value(&case).unwrap_or_default();
                    ctx.enumerated("ticks", &j, |p| {
                        let r = check_ticks(&case, p);
                        if r.is_ok() {
                            p.label("ticks:exhaustive_order");
                        }
                        r
                    });
                }
            }
        }
    }
    let inc: Vec<String> = std::mem::take(&mut *INCONCLUSIVE.lock().unwrap());
    for m in inc {
        ctx.inconclusive(m);
    }
    let infra: Vec<String> = std::mem::take(&mut *INFRA.lock().unwrap());
    for m in infra.into_iter().take(3) {
        ctx.inconclusive(format!("infrastructure: {}", m.chars().take(600).collect::<String>()));
    }
}
