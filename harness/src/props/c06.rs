//! C06 - task scheduling follows the IEC 61131-3 task model on every timeline.
//!
//! A case is a `Scenario`: a CONFIGURATION (1-6 TASKs with INTERVAL from
//! {0, 1 ms, 3 ms, 7 ms, 10 ms, 1 s}, PRIORITY with deliberate duplicates, SINGLE variables
//! shared between tasks, tasks with both triggers; 1-6 program instances with or without a
//! task; FB instances associated with tasks) plus a timeline (1-40 cycles; before each
//! cycle the scheduler clock is set to the next clock value and SINGLE variables are
//! written). Every program/FB body appends its id to a global log array, bumps its own
//! counter and possibly writes a SINGLE variable.
//!
//! Oracle: an independent model of the task model as stated by the property text and
//! docs/specs/10-runtime.md section 4.3/4.4 (see `Model`). The SINGLE values the model
//! sees are the values the variables hold immediately before `execute_cycle` is called
//! (read from the runtime's globals), so program bodies writing SINGLE variables are just
//! another source of SINGLE changes; nothing about expression evaluation is modelled.
//!
//! Compared per cycle: the task sequence from TaskStart/TaskEnd events, the unit sequence
//! from the log array, per-unit counters, `task_overrun_count` and TaskOverrun events.

use proptest::prelude::*;
use serde::{Deserialize, Serialize};
use serde_json::json;
use trust_runtime::debug::RuntimeEvent;
use trust_runtime::harness::TestHarness;
use trust_runtime::value::{Duration, Value};

use crate::engine::tape::{Reader, Tape};
use crate::engine::{Probe, PropertyInfo, RunCtx};

pub fn info() -> PropertyInfo {
    PropertyInfo {
        id: "C06",
        level: "exploration",
        rule: "case = generated CONFIGURATION text (1-6 tasks, INTERVAL in {0,1ms,3ms,7ms,10ms,1s}, duplicate priorities, shared SINGLE variables, tasks with both triggers, 1-6 program instances with/without task, task-associated FB instances) + timeline of 1-40 cycles (clock steps 0 / <interval / =interval / k*interval+r / huge; SINGLE variables set, held, cleared by the harness and toggled by program bodies); non-trivial = some cycle has >= 2 ready tasks, an equal-priority tie, an overrun, an event activation coinciding with a periodic one, or a SINGLE variable held TRUE across consecutive cycles; distinct by SHA-256 of the serialized scenario",
        assumptions: &[
            "SINGLE is sampled once per execute_cycle, before any task runs (10-runtime.md 4.3/4.4: event_due = single_prev = FALSE and single_now = TRUE; execute_cycle determines due tasks and then invokes them); a pulse that rises and falls between two samples is not an edge",
            "for a task with SINGLE and INTERVAL>0, 'elapsed since the last activation' = since the last periodic activation (formula of 10-runtime.md 4.3; reading fixed in DESIGN.md); an event activation does not restart the period",
            "the period of a task that has not been activated yet is measured from the configuration start (t = 0): a periodic task is not due at t = 0",
            "due time of a periodic activation = last activation + INTERVAL, of an event activation = the clock value of the cycle that samples the edge",
            "scheduler clock values are i64 nanoseconds set with Runtime::set_current_time (what ResourceRunner does), monotone, at most 2^62 ns",
            "multiple instances of one PROGRAM type are rejected by the pinned compiler, so every instance has its own type",
        ],
        workers_quick: 8,
        workers_thorough: 16,
        address_space_limit: 0,
        watchdog_quick_s: 600,
        watchdog_thorough_s: 7200,
        run,
    }
}

// ---------------------------------------------------------------------------------------
// Scenario
// ---------------------------------------------------------------------------------------

const LOG_LEN: usize = 32;
const MAX_TIME: i64 = 1 << 62;

#[derive(Clone, Debug, Serialize, Deserialize, PartialEq)]
pub struct TaskSpec {
    pub interval_ns: i64,
    pub single: Option<usize>,
    pub priority: u32,
    /// Leave INTERVAL out of the TASK initialisation (only when interval_ns == 0).
    #[serde(default)]
    pub omit_interval: bool,
}

/// What a body does to a SINGLE variable after logging itself.
/// kind: 0 `v := NOT v`, 1 `v := TRUE`, 2 `v := FALSE`, 3 TRUE on odd executions else FALSE.
#[derive(Clone, Debug, Serialize, Deserialize, PartialEq)]
pub struct Action {
    pub var: usize,
    pub kind: u8,
}

#[derive(Clone, Debug, Serialize, Deserialize, PartialEq)]
pub struct FbSpec {
    pub task: usize,
    pub action: Option<Action>,
}

#[derive(Clone, Debug, Serialize, Deserialize, PartialEq)]
pub struct ProgSpec {
    pub task: Option<usize>,
    pub action: Option<Action>,
    #[serde(default)]
    pub fbs: Vec<FbSpec>,
}

#[derive(Clone, Debug, Serialize, Deserialize, PartialEq)]
pub struct Step {
    /// Clock step before the cycle (nanoseconds, >= 0).
    pub dt_ns: i64,
    /// SINGLE variable writes before the cycle.
    #[serde(default)]
    pub writes: Vec<(usize, bool)>,
}

#[derive(Clone, Debug, Serialize, Deserialize, PartialEq)]
pub struct Scenario {
    /// Initial values of the SINGLE variables g_s0, g_s1, ...
    pub vars: Vec<bool>,
    pub tasks: Vec<TaskSpec>,
    pub programs: Vec<ProgSpec>,
    /// Wrap tasks/programs in RESOURCE ... ON PLC.
    #[serde(default)]
    pub resource: bool,
    pub steps: Vec<Step>,
}

fn prog_id(p: usize) -> i64 {
    1 + p as i64
}

fn fb_id(p: usize, f: usize) -> i64 {
    100 + 10 * p as i64 + f as i64
}

fn time_literal(ns: i64) -> String {
    if ns > 0 && ns % 1_000_000_000 == 0 {
        format!("T#{}s", ns / 1_000_000_000)
    } else {
        format!("T#{}ms", ns / 1_000_000)
    }
}

fn body(out: &mut String, id: i64, action: &Option<Action>) {
    out.push_str(&format!(
        "IF g_idx < DINT#{LOG_LEN} THEN\n  g_log[g_idx] := DINT#{id};\n  g_idx := g_idx + DINT#1;\nEND_IF;\ncnt := cnt + DINT#1;\n"
    ));
    if let Some(a) = action {
        let v = format!("g_s{}", a.var);
        match a.kind % 4 {
            0 => out.push_str(&format!("{v} := NOT {v};\n")),
            1 => out.push_str(&format!("{v} := TRUE;\n")),
            2 => out.push_str(&format!("{v} := FALSE;\n")),
            _ => out.push_str(&format!(
                "IF (cnt MOD DINT#2) = DINT#1 THEN\n  {v} := TRUE;\nELSE\n  {v} := FALSE;\nEND_IF;\n"
            )),
        }
    }
}

fn externals(out: &mut String, action: &Option<Action>) {
    out.push_str("VAR_EXTERNAL\n");
    out.push_str(&format!("  g_log : ARRAY[0..{}] OF DINT;\n", LOG_LEN - 1));
    out.push_str("  g_idx : DINT;\n");
    if let Some(a) = action {
        out.push_str(&format!("  g_s{} : BOOL;\n", a.var));
    }
    out.push_str("END_VAR\n");
}

pub fn render(s: &Scenario) -> String {
    let mut out = String::new();
    for (p, prog) in s.programs.iter().enumerate() {
        for (f, fb) in prog.fbs.iter().enumerate() {
            out.push_str(&format!("FUNCTION_BLOCK Fb{p}_{f}\n"));
            externals(&mut out, &fb.action);
            out.push_str("VAR\n  cnt : DINT := 0;\nEND_VAR\n");
            body(&mut out, fb_id(p, f), &fb.action);
            out.push_str("END_FUNCTION_BLOCK\n\n");
        }
    }
    for (p, prog) in s.programs.iter().enumerate() {
        out.push_str(&format!("PROGRAM Prog{p}\n"));
        externals(&mut out, &prog.action);
        out.push_str("VAR\n  cnt : DINT := 0;\n");
        for f in 0..prog.fbs.len() {
            out.push_str(&format!("  fb{f} : Fb{p}_{f};\n"));
        }
        out.push_str("END_VAR\n");
        body(&mut out, prog_id(p), &prog.action);
        out.push_str("END_PROGRAM\n\n");
    }
    out.push_str("CONFIGURATION Conf\n");
    if s.resource {
        out.push_str("RESOURCE Res ON PLC\n");
    }
    out.push_str("VAR_GLOBAL\n");
    out.push_str(&format!("  g_log : ARRAY[0..{}] OF DINT;\n", LOG_LEN - 1));
    out.push_str("  g_idx : DINT := 0;\n");
    for (i, init) in s.vars.iter().enumerate() {
        out.push_str(&format!(
            "  g_s{i} : BOOL := {};\n",
            if *init { "TRUE" } else { "FALSE" }
        ));
    }
    out.push_str("END_VAR\n");
    for (t, task) in s.tasks.iter().enumerate() {
        let mut parts = Vec::new();
        if let Some(v) = task.single {
            parts.push(format!("SINGLE := g_s{v}"));
        }
        if !(task.omit_interval && task.interval_ns == 0) {
            parts.push(format!("INTERVAL := {}", time_literal(task.interval_ns)));
        }
        // PRIORITY is mandatory for the pinned checker (E306)
        parts.push(format!("PRIORITY := {}", task.priority));
        out.push_str(&format!("TASK T{t} ({});\n", parts.join(", ")));
    }
    for (p, prog) in s.programs.iter().enumerate() {
        out.push_str(&format!("PROGRAM P{p}"));
        if let Some(t) = prog.task {
            out.push_str(&format!(" WITH T{t}"));
        }
        out.push_str(&format!(" : Prog{p}"));
        if !prog.fbs.is_empty() {
            let list: Vec<String> = prog
                .fbs
                .iter()
                .enumerate()
                .map(|(f, fb)| format!("fb{f} WITH T{}", fb.task))
                .collect();
            out.push_str(&format!(" ({})", list.join(", ")));
        }
        out.push_str(";\n");
    }
    if s.resource {
        out.push_str("END_RESOURCE\n");
    }
    out.push_str("END_CONFIGURATION\n");
    out
}

// ---------------------------------------------------------------------------------------
// Generator (function of a choice tape)
// ---------------------------------------------------------------------------------------

fn gen_action(r: &mut Reader, nvars: usize, num: u32, den: u32) -> Option<Action> {
    if nvars > 0 && r.chance(num, den) {
        Some(Action {
            var: r.pick(nvars),
            kind: r.pick(4) as u8,
        })
    } else {
        None
    }
}

fn gen_dt(r: &mut Reader, positive: &[i64]) -> i64 {
    let i = if positive.is_empty() {
        1_000_000
    } else {
        positive[r.pick(positive.len())]
    };
    match r.weighted(&[2, 10, 10, 6, 8, 4, 1]) {
        0 => 0,
        1 => [1_000_000, 2_000_000, 5_000_000][r.pick(3)],
        2 => i,
        3 => [1, i / 2, i - 1][r.pick(3)],
        4 => {
            let k = 2 + r.pick(5) as i64;
            let rem = [0, 1, i / 2, i - 1][r.pick(4)];
            k.saturating_mul(i).saturating_add(rem)
        }
        5 => i + 1,
        _ => [
            1_000_000_000_000,
            1 << 40,
            1_000_000_000_000_007,
            3_600_000_000_000,
            86_400_000_000_000,
            1_000_000_000_001,
            1 << 55,
            MAX_TIME,
        ][r.pick(8)],
    }
}

/// One tape word. `any::<u32>()` shrinks towards 0 = the simplest alternative of a choice.
fn word() -> impl Strategy<Value = u32> {
    prop_oneof![
        8 => any::<u32>(),
        1 => (0u32..16).prop_map(|v| v << 28),
        1 => Just(0u32),
    ]
}

fn words(n: usize) -> impl Strategy<Value = Tape> {
    proptest::collection::vec(word(), n).prop_map(|data| Tape { data })
}

/// The scenario is assembled from one small fixed-length tape per element (variables,
/// each task, each program, each step), so that proptest shrinks by dropping whole tasks,
/// programs and steps and by lowering single choices; references are `pick(len)` and stay
/// valid when elements disappear.
pub fn scenario_strategy() -> impl Strategy<Value = Scenario> {
    (
        words(4),
        proptest::collection::vec(words(5), 1..=6),
        proptest::collection::vec(words(12), 1..=6),
        any::<bool>(),
        proptest::collection::vec(words(10), 1..=40),
    )
        .prop_map(|(v, t, p, resource, st)| build_scenario(&v, &t, &p, resource, &st))
}

pub fn build_scenario(v: &Tape, t: &[Tape], p: &[Tape], resource: bool, st: &[Tape]) -> Scenario {
    let mut r = Reader::new(v);
    let nvars = r.weighted(&[1, 3, 3, 2]);
    // initially TRUE: no rising edge at the first sample
    let vars: Vec<bool> = (0..nvars).map(|_| r.pick(8) == 5).collect();
    let ntasks = t.len();
    let mut tasks = Vec::new();
    for tape in t {
        let mut r = Reader::new(tape);
        let interval_ns = [1_000_000, 3_000_000, 0, 7_000_000, 10_000_000, 1_000_000_000]
            [r.weighted(&[4, 4, 3, 3, 3, 1])];
        let single = if nvars > 0 && r.chance(1, 2) {
            Some(r.pick(nvars))
        } else {
            None
        };
        let priority = match r.weighted(&[5, 3, 1]) {
            0 => r.pick(3) as u32,
            1 => r.pick(2) as u32,
            _ => [7, 100, 65535][r.pick(3)],
        };
        let omit_interval = interval_ns == 0 && r.chance(1, 3);
        tasks.push(TaskSpec {
            interval_ns,
            single,
            priority,
            omit_interval,
        });
    }
    let mut programs = Vec::new();
    let mut total_fbs = 0;
    for tape in p {
        let mut r = Reader::new(tape);
        let task = if r.chance(3, 4) {
            Some(r.pick(ntasks))
        } else {
            None
        };
        let action = gen_action(&mut r, nvars, 1, 3);
        let mut fbs = Vec::new();
        let nf = r.weighted(&[6, 2, 1]);
        for _ in 0..nf {
            if total_fbs >= 6 {
                break;
            }
            total_fbs += 1;
            let task = r.pick(ntasks);
            let action = gen_action(&mut r, nvars, 1, 4);
            fbs.push(FbSpec { task, action });
        }
        programs.push(ProgSpec { task, action, fbs });
    }
    let positive: Vec<i64> = tasks
        .iter()
        .map(|t| t.interval_ns)
        .filter(|i| *i > 0)
        .collect();
    let mut steps = Vec::new();
    for tape in st {
        let mut r = Reader::new(tape);
        let dt_ns = gen_dt(&mut r, &positive);
        let mut writes = Vec::new();
        for v in 0..nvars {
            match r.weighted(&[5, 1, 1]) {
                0 => {}
                1 => writes.push((v, true)),
                _ => writes.push((v, false)),
            }
        }
        steps.push(Step { dt_ns, writes });
    }
    Scenario {
        vars,
        tasks,
        programs,
        resource,
        steps,
    }
}

// ---------------------------------------------------------------------------------------
// Model (the oracle)
// ---------------------------------------------------------------------------------------

#[derive(Clone, Debug)]
struct TaskModel {
    /// SINGLE value at the previous sample (initially: the declared initial value).
    last_single: bool,
    /// Clock value of the last periodic activation (configuration start = 0 before any).
    last_periodic: i128,
    overruns: u64,
    /// SINGLE was sampled TRUE since the last periodic activation (both-trigger tasks):
    /// whether the activations suppressed meanwhile count as "missed" is not stated
    /// anywhere, so the overrun increment of the next periodic activation is not asserted.
    suppressed_since_periodic: bool,
}

#[derive(Clone, Debug)]
struct Ready {
    task: usize,
    due_at: i128,
    event: bool,
    missed: u64,
    missed_unasserted: bool,
}

struct Model {
    tasks: Vec<TaskModel>,
}

impl Model {
    fn new(s: &Scenario) -> Model {
        Model {
            tasks: s
                .tasks
                .iter()
                .map(|t| TaskModel {
                    last_single: t.single.map(|v| s.vars[v]).unwrap_or(false),
                    last_periodic: 0,
                    overruns: 0,
                    suppressed_since_periodic: false,
                })
                .collect(),
        }
    }

    /// One scheduling decision: `now` = clock value, `samples` = SINGLE variable values at
    /// the start of the cycle. Returns the ready list in execution order.
    fn step(&mut self, s: &Scenario, now: i128, samples: &[bool]) -> Vec<Ready> {
        let mut ready: Vec<Ready> = Vec::new();
        for (idx, spec) in s.tasks.iter().enumerate() {
            let st = &mut self.tasks[idx];
            let single_now = spec.single.map(|v| samples[v]).unwrap_or(false);
            let interval = spec.interval_ns as i128;
            // event-driven: each rising edge of SINGLE
            let event_due = !st.last_single && single_now;
            // A variable that is TRUE from initialisation on has not risen: `last_single`
            // starts from the declared initial value, so the first sample is no edge.
            // periodic: INTERVAL > 0, SINGLE false, at least INTERVAL elapsed
            let elapsed = now - st.last_periodic;
            let periodic_due = interval > 0 && !single_now && elapsed >= interval;
            if single_now && interval > 0 {
                st.suppressed_since_periodic = true;
            }
            if periodic_due {
                let n = (elapsed / interval) as u64;
                let missed = n - 1;
                let unasserted = st.suppressed_since_periodic;
                st.overruns = st.overruns.saturating_add(missed);
                ready.push(Ready {
                    task: idx,
                    due_at: st.last_periodic + interval,
                    event: false,
                    missed,
                    missed_unasserted: unasserted,
                });
                st.last_periodic = now;
                st.suppressed_since_periodic = false;
            } else if event_due {
                ready.push(Ready {
                    task: idx,
                    due_at: now,
                    event: true,
                    missed: 0,
                    missed_unasserted: false,
                });
            }
            st.last_single = single_now;
        }
        // ascending PRIORITY number, earlier due time, declaration order
        ready.sort_by_key(|r| (s.tasks[r.task].priority, r.due_at, r.task));
        ready
    }
}

// ---------------------------------------------------------------------------------------
// Execution against the real runtime
// ---------------------------------------------------------------------------------------

fn as_i64(v: &Value) -> Option<i64> {
    Some(match v {
        Value::SInt(x) => *x as i64,
        Value::Int(x) => *x as i64,
        Value::DInt(x) => *x as i64,
        Value::LInt(x) => *x,
        Value::USInt(x) => *x as i64,
        Value::UInt(x) => *x as i64,
        Value::UDInt(x) => *x as i64,
        Value::ULInt(x) => i64::try_from(*x).ok()?,
        _ => return None,
    })
}

#[derive(Default)]
pub struct Classes {
    pub multi_ready: bool,
    pub tie: bool,
    pub tie_due_decides: bool,
    pub overrun: bool,
    pub coincidence: bool,
    pub held_high: bool,
    pub blocked_periodic: bool,
    pub both_event: bool,
    pub init_true_first: bool,
    pub bg_decl_order: bool,
    pub bg_other_order: bool,
    pub fb_after_programs: bool,
    pub fb_interleaved: bool,
    pub unasserted_overrun: bool,
    pub background: bool,
    pub fb_ran: bool,
    pub huge: bool,
    pub never_due_task: bool,
    pub prog_toggle_edge: bool,
    pub ready_cycles: u32,
    pub cycles: u32,
}

pub struct Outcome {
    pub classes: Classes,
    pub trace: Vec<String>,
}

enum Fail {
    /// The generated text was not accepted or the harness could not observe (not a verdict).
    Infra(String),
    Violation(String),
}

fn unit_name(id: i64) -> String {
    if id >= 100 {
        format!("P{}.fb{}", (id - 100) / 10, (id - 100) % 10)
    } else {
        format!("P{}", id - 1)
    }
}

fn run_scenario(s: &Scenario, want_trace: bool) -> Result<Outcome, Fail> {
    let text = render(s);
    let mut h = match crate::engine::catch(|| TestHarness::from_source(&text)) {
        Ok(Ok(h)) => h,
        Ok(Err(e)) => return Err(Fail::Infra(format!("configuration rejected: {e}"))),
        Err(p) => return Err(Fail::Violation(format!("compiling the configuration panicked: {p}\n{text}"))),
    };
    let debug = h.runtime_mut().enable_debug();
    let _ = debug.drain_runtime_events();

    // static structure
    let ntasks = s.tasks.len();
    let mut task_programs: Vec<Vec<i64>> = vec![Vec::new(); ntasks];
    let mut task_fbs: Vec<Vec<i64>> = vec![Vec::new(); ntasks];
    let mut background: Vec<i64> = Vec::new();
    for (p, prog) in s.programs.iter().enumerate() {
        match prog.task {
            Some(t) => task_programs[t].push(prog_id(p)),
            None => background.push(prog_id(p)),
        }
        for (f, fb) in prog.fbs.iter().enumerate() {
            task_fbs[fb.task].push(fb_id(p, f));
        }
    }
    let mut counts: std::collections::BTreeMap<i64, i64> = std::collections::BTreeMap::new();
    for (p, prog) in s.programs.iter().enumerate() {
        counts.insert(prog_id(p), 0);
        for f in 0..prog.fbs.len() {
            counts.insert(fb_id(p, f), 0);
        }
    }

    let mut model = Model::new(s);
    let mut classes = Classes::default();
    let mut trace = Vec::new();
    let mut now: i64 = 0;
    let mut prev_samples: Option<Vec<bool>> = None;
    let mut prev_after: Option<Vec<bool>> = None;

    for (k, step) in s.steps.iter().enumerate() {
        now = now.saturating_add(step.dt_ns.max(0)).min(MAX_TIME);
        if step.dt_ns >= 1_000_000_000_000 {
            classes.huge = true;
        }
        h.runtime_mut().set_current_time(Duration::from_nanos(now));
        for (v, val) in &step.writes {
            if *v < s.vars.len() {
                h.runtime_mut()
                    .storage_mut()
                    .set_global(format!("g_s{v}"), Value::Bool(*val));
            }
        }
        h.runtime_mut()
            .storage_mut()
            .set_global("g_idx", Value::DInt(0));
        // SINGLE values at the start of the cycle
        let mut samples = Vec::new();
        for v in 0..s.vars.len() {
            match h.runtime().storage().get_global(&format!("g_s{v}")) {
                Some(Value::Bool(b)) => samples.push(*b),
                other => {
                    return Err(Fail::Infra(format!("g_s{v} is not a BOOL global: {other:?}")))
                }
            }
        }
        let overruns_before: Vec<u64> = model.tasks.iter().map(|t| t.overruns).collect();
        let expected = model.step(s, now as i128, &samples);

        // classification of the cycle (from the model)
        classes.cycles += 1;
        let firm: Vec<&Ready> = expected.iter().collect();
        if !firm.is_empty() {
            classes.ready_cycles += 1;
        }
        if firm.len() >= 2 {
            classes.multi_ready = true;
            for w in firm.windows(2) {
                if s.tasks[w[0].task].priority == s.tasks[w[1].task].priority {
                    classes.tie = true;
                    if w[0].task > w[1].task {
                        classes.tie_due_decides = true;
                    }
                }
            }
        }
        if firm.iter().any(|r| r.missed > 0 && !r.missed_unasserted) {
            classes.overrun = true;
        }
        if firm.iter().any(|r| r.event) && firm.iter().any(|r| !r.event) {
            classes.coincidence = true;
        }
        if k == 0
            && s.tasks.iter().any(|t| t.single.map(|v| s.vars[v] && samples[v]).unwrap_or(false))
        {
            classes.init_true_first = true;
        }
        if expected.iter().any(|r| r.missed_unasserted) {
            classes.unasserted_overrun = true;
        }
        if let Some(prev) = &prev_samples {
            for t in &s.tasks {
                if let Some(v) = t.single {
                    if prev[v] && samples[v] {
                        classes.held_high = true;
                        if t.interval_ns > 0 {
                            classes.blocked_periodic = true;
                        }
                    }
                }
            }
        }
        if let Some(after) = &prev_after {
            // an edge made by a program body of the previous cycle and still visible now
            if let Some(prev) = &prev_samples {
                for t in &s.tasks {
                    if let Some(v) = t.single {
                        let written = s.steps[k].writes.iter().any(|(w, _)| *w == v);
                        if !prev[v] && after[v] && samples[v] && !written {
                            classes.prog_toggle_edge = true;
                        }
                    }
                }
            }
        }
        if firm
            .iter()
            .any(|r| r.event && s.tasks[r.task].interval_ns > 0)
        {
            classes.both_event = true;
        }

        // run the cycle
        let result = match crate::engine::catch(|| h.cycle()) {
            Ok(r) => r,
            Err(p) => {
                return Err(Fail::Violation(format!(
                    "cycle {k} (t = {now} ns) panicked: {p}\n{text}"
                )))
            }
        };
        let events = debug.drain_runtime_events();
        let describe = |msg: String| -> Fail {
            let exp: Vec<String> = expected
                .iter()
                .map(|r| {
                    format!(
                        "T{}(prio {}, due_at {}, {})",
                        r.task,
                        s.tasks[r.task].priority,
                        r.due_at,
                        if r.event { "event" } else { "periodic" }
                    )
                })
                .collect();
            Fail::Violation(format!(
                "cycle {k} (t = {now} ns, SINGLE samples {samples:?}): {msg}\n  model ready list: [{}]\n  events: {}\n{text}",
                exp.join(", "),
                events
                    .iter()
                    .filter_map(|e| match e {
                        RuntimeEvent::TaskStart { name, .. } => Some(format!("start {name}")),
                        RuntimeEvent::TaskEnd { name, .. } => Some(format!("end {name}")),
                        RuntimeEvent::TaskOverrun { name, missed, .. } =>
                            Some(format!("overrun {name} missed={missed}")),
                        RuntimeEvent::Fault { error, .. } => Some(format!("fault {error}")),
                        _ => None,
                    })
                    .collect::<Vec<_>>()
                    .join(", ")
            ))
        };
        if let Some(err) = result.errors.first() {
            return Err(describe(format!("the cycle returned an error: {err}")));
        }

        // (1) task sequence from TaskStart/TaskEnd events
        let mut observed: Vec<usize> = Vec::new();
        let mut open: Option<usize> = None;
        let mut overrun_events: Vec<u64> = vec![0; ntasks];
        for e in &events {
            match e {
                RuntimeEvent::TaskStart { name, .. } => {
                    let Some(t) = name.strip_prefix('T').and_then(|n| n.parse::<usize>().ok()) else {
                        return Err(describe(format!("TaskStart for unknown task {name}")));
                    };
                    if t >= ntasks {
                        return Err(describe(format!("TaskStart for unknown task {name}")));
                    }
                    if let Some(o) = open {
                        return Err(describe(format!("TaskStart {name} while T{o} has not ended")));
                    }
                    open = Some(t);
                    observed.push(t);
                }
                RuntimeEvent::TaskEnd { name, .. } => {
                    let t = name.strip_prefix('T').and_then(|n| n.parse::<usize>().ok());
                    if open.is_none() || t != open {
                        return Err(describe(format!("TaskEnd {name} does not match the open task {open:?}")));
                    }
                    open = None;
                }
                RuntimeEvent::TaskOverrun { name, missed, .. } => {
                    let Some(t) = name.strip_prefix('T').and_then(|n| n.parse::<usize>().ok()) else {
                        return Err(describe(format!("TaskOverrun for unknown task {name}")));
                    };
                    if t >= ntasks {
                        return Err(describe(format!("TaskOverrun for unknown task {name}")));
                    }
                    overrun_events[t] = overrun_events[t].saturating_add(*missed);
                }
                _ => {}
            }
        }
        if let Some(o) = open {
            return Err(describe(format!("T{o} started but never ended")));
        }
        // exactly the due tasks, in model order, each once
        {
            let want: Vec<usize> = expected.iter().map(|r| r.task).collect();
            if observed != want {
                return Err(describe(format!(
                    "executed task sequence [{}] differs from the model's [{}]",
                    observed.iter().map(|t| format!("T{t}")).collect::<Vec<_>>().join(" "),
                    want.iter().map(|t| format!("T{t}")).collect::<Vec<_>>().join(" ")
                )));
            }
        }

        // (2) unit sequence from the log array
        let idx = match h.runtime().storage().get_global("g_idx").and_then(as_i64) {
            Some(i) if (0..=LOG_LEN as i64).contains(&i) => i as usize,
            other => return Err(Fail::Infra(format!("g_idx unreadable: {other:?}"))),
        };
        let log: Vec<i64> = match h.runtime().storage().get_global("g_log") {
            Some(Value::Array(a)) if a.elements.len() == LOG_LEN => {
                let mut v = Vec::new();
                for e in &a.elements[..idx] {
                    match as_i64(e) {
                        Some(x) => v.push(x),
                        None => return Err(Fail::Infra(format!("log element unreadable: {e:?}"))),
                    }
                }
                v
            }
            other => return Err(Fail::Infra(format!("g_log unreadable: {other:?}"))),
        };
        let names = |ids: &[i64]| ids.iter().map(|i| unit_name(*i)).collect::<Vec<_>>().join(" ");
        let mut pos = 0;
        for t in &observed {
            let n = task_programs[*t].len() + task_fbs[*t].len();
            if pos + n > log.len() {
                return Err(describe(format!(
                    "log [{}] is too short: T{t} should contribute {n} unit(s) from position {pos}",
                    names(&log)
                )));
            }
            let group = &log[pos..pos + n];
            // programs of the task in declaration order (10-runtime.md 4.4); FB instances
            // each once, position inside the task not asserted
            let progs: Vec<i64> = group.iter().copied().filter(|i| *i < 100).collect();
            let mut fbs: Vec<i64> = group.iter().copied().filter(|i| *i >= 100).collect();
            fbs.sort();
            let mut want_fbs = task_fbs[*t].clone();
            want_fbs.sort();
            if progs != task_programs[*t] || fbs != want_fbs {
                return Err(describe(format!(
                    "log [{}]: position {pos}..{} should hold the units of T{t} (programs [{}] in declaration order, FB instances [{}]), found [{}]",
                    names(&log),
                    pos + n,
                    names(&task_programs[*t]),
                    names(&task_fbs[*t]),
                    names(group)
                )));
            }
            if !fbs.is_empty() {
                classes.fb_ran = true;
                // observed, not asserted: FB instances after the programs of the task
                let first_fb = group.iter().position(|i| *i >= 100).unwrap_or(0);
                if !progs.is_empty() {
                    if group[first_fb..].iter().all(|i| *i >= 100) {
                        classes.fb_after_programs = true;
                    } else {
                        classes.fb_interleaved = true;
                    }
                }
            }
            pos += n;
        }
        // followed by every program that has no task
        {
            let rest = &log[pos..];
            let mut got = rest.to_vec();
            got.sort();
            let mut want = background.clone();
            want.sort();
            if got != want {
                return Err(describe(format!(
                    "log [{}]: after the task units (position {pos}) every program without a task [{}] must run exactly once, found [{}]",
                    names(&log),
                    names(&background),
                    names(rest)
                )));
            }
            if !background.is_empty() {
                classes.background = true;
            }
            // observed, not asserted: order among the background programs
            if background.len() >= 2 {
                if rest == background.as_slice() {
                    classes.bg_decl_order = true;
                } else {
                    classes.bg_other_order = true;
                }
            }
        }
        for id in &log {
            *counts.entry(*id).or_default() += 1;
        }

        // (3) per-unit counters
        for (p, prog) in s.programs.iter().enumerate() {
            let pid = match h.runtime().storage().get_global(&format!("P{p}")) {
                Some(Value::Instance(id)) => *id,
                other => return Err(Fail::Infra(format!("P{p} is not an instance: {other:?}"))),
            };
            let got = h.runtime().storage().get_instance_var(pid, "cnt").and_then(as_i64);
            if got != Some(counts[&prog_id(p)]) {
                return Err(describe(format!(
                    "counter of P{p} is {got:?}, the log says it ran {} time(s)",
                    counts[&prog_id(p)]
                )));
            }
            for f in 0..prog.fbs.len() {
                let fid = match h.runtime().storage().get_instance_var(pid, &format!("fb{f}")) {
                    Some(Value::Instance(id)) => *id,
                    other => {
                        return Err(Fail::Infra(format!("P{p}.fb{f} is not an instance: {other:?}")))
                    }
                };
                let got = h.runtime().storage().get_instance_var(fid, "cnt").and_then(as_i64);
                if got != Some(counts[&fb_id(p, f)]) {
                    return Err(describe(format!(
                        "counter of P{p}.fb{f} is {got:?}, the log says it ran {} time(s)",
                        counts[&fb_id(p, f)]
                    )));
                }
            }
        }

        // (4) overruns: counter and events
        for t in 0..ntasks {
            let got = h.runtime().task_overrun_count(&format!("T{t}"));
            let Some(got) = got else {
                return Err(Fail::Infra(format!("task_overrun_count(T{t}) = None")));
            };
            let unasserted = expected.iter().any(|r| r.task == t && r.missed_unasserted);
            if unasserted {
                // adopt what the runtime counted (see TaskModel::suppressed_since_periodic)
                if got < overruns_before[t] {
                    return Err(describe(format!(
                        "overrun count of T{t} went down from {} to {got}",
                        overruns_before[t]
                    )));
                }
                model.tasks[t].overruns = got;
                continue;
            }
            if got != model.tasks[t].overruns {
                return Err(describe(format!(
                    "task_overrun_count(T{t}) = {got}, model = {} (before this cycle {})",
                    model.tasks[t].overruns, overruns_before[t]
                )));
            }
            let want_missed = model.tasks[t].overruns - overruns_before[t];
            if overrun_events[t] != want_missed {
                return Err(describe(format!(
                    "TaskOverrun events of T{t} report {} missed activation(s), model = {want_missed}",
                    overrun_events[t]
                )));
            }
        }

        if want_trace {
            trace.push(format!(
                "cycle {k}: t={now} samples={samples:?} ready=[{}] log=[{}]",
                expected
                    .iter()
                    .map(|r| format!(
                        "T{}{}{}",
                        r.task,
                        if r.event { "e" } else { "p" },
                        if r.missed > 0 { format!("(missed {})", r.missed) } else { String::new() }
                    ))
                    .collect::<Vec<_>>()
                    .join(" "),
                names(&log)
            ));
        }
        // values after the cycle (to recognise edges made by program bodies)
        let mut after = Vec::new();
        for v in 0..s.vars.len() {
            match h.runtime().storage().get_global(&format!("g_s{v}")) {
                Some(Value::Bool(b)) => after.push(*b),
                _ => after.push(false),
            }
        }
        prev_after = Some(after);
        prev_samples = Some(samples);
    }
    for (t, spec) in s.tasks.iter().enumerate() {
        let has_units = s.programs.iter().any(|p| p.task == Some(t));
        if spec.interval_ns == 0 && spec.single.is_none() && has_units {
            classes.never_due_task = true;
        }
    }
    Ok(Outcome { classes, trace })
}

fn well_formed(s: &Scenario) -> bool {
    let nv = s.vars.len();
    let nt = s.tasks.len();
    !s.tasks.is_empty()
        && nt <= 6
        && !s.programs.is_empty()
        && s.programs.len() <= 6
        && nv <= 8
        && s.tasks.iter().all(|t| {
            t.interval_ns >= 0 && t.interval_ns % 1_000_000 == 0 && t.single.map(|v| v < nv).unwrap_or(true)
        })
        && s.programs.iter().all(|p| {
            p.task.map(|t| t < nt).unwrap_or(true)
                && p.action.as_ref().map(|a| a.var < nv).unwrap_or(true)
                && p.fbs.len() <= 9
                && p.fbs
                    .iter()
                    .all(|f| f.task < nt && f.action.as_ref().map(|a| a.var < nv).unwrap_or(true))
        })
        && s.programs.iter().map(|p| 1 + p.fbs.len()).sum::<usize>() <= LOG_LEN
}

fn check(s: &Scenario, probe: &mut Probe) -> Result<(), String> {
    if !well_formed(s) {
        probe.label("scenario=malformed");
        return Ok(());
    }
    match run_scenario(s, false) {
        Ok(out) => {
            let c = &out.classes;
            let mut any = false;
            for (on, name) in [
                (c.multi_ready, "class:ready>=2"),
                (c.tie, "class:equal_priority_tie"),
                (c.overrun, "class:overrun"),
                (c.coincidence, "class:event+periodic"),
                (c.held_high, "class:single_held_high"),
            ] {
                if on {
                    probe.label(name);
                    any = true;
                }
            }
            for (on, name) in [
                (c.tie_due_decides, "tie:due_time_beats_declaration_order"),
                (c.blocked_periodic, "both:periodic_suppressed_by_single"),
                (c.both_event, "both:event_activation"),
                (c.init_true_first, "single:initially_true_at_first_sample"),
                (c.unasserted_overrun, "unasserted:overrun_after_suppression"),
                (c.background, "has:background_program"),
                (c.fb_ran, "has:fb_executed_by_task"),
                (c.huge, "has:huge_clock_step"),
                (c.never_due_task, "has:task_never_due_with_programs"),
                (c.prog_toggle_edge, "has:edge_made_by_program_body"),
                (c.ready_cycles == 0, "no_task_ever_ready"),
                (c.bg_decl_order, "observed:background_programs_in_declaration_order"),
                (c.bg_other_order, "observed:background_programs_in_other_order"),
                (c.fb_after_programs, "observed:task_fbs_after_task_programs"),
                (c.fb_interleaved, "observed:task_fbs_before_or_between_task_programs"),
            ] {
                if on {
                    probe.label(name);
                }
            }
            probe.label("compile=accepted");
            if any {
                let key = serde_json::to_vec(s).unwrap_or_default();
                probe.nontrivial(&key);
                probe.sample(json!({
                    "tasks": s.tasks.len(),
                    "programs": s.programs.len(),
                    "fbs": s.programs.iter().map(|p| p.fbs.len()).sum::<usize>(),
                    "cycles": s.steps.len(),
                    "cycles_with_ready_task": c.ready_cycles,
                    "configuration": render(s).split("CONFIGURATION").nth(1).map(|t| format!("CONFIGURATION{t}")),
                }));
            }
            Ok(())
        }
        Err(Fail::Infra(msg)) => {
            probe.label("compile=rejected_or_unobservable");
            probe.label(format!("infra: {}", msg.lines().next().unwrap_or("").chars().take(120).collect::<String>()));
            Ok(())
        }
        Err(Fail::Violation(msg)) => Err(msg),
    }
}

/// Helper subcommands: `tpv c06-show <replay-or-violation.json>` prints the configuration
/// text and the per-cycle trace of a saved case.
pub fn helper(args: &[String]) -> Option<i32> {
    if args.first().map(|s| s.as_str()) != Some("c06-show") {
        return None;
    }
    let Some(path) = args.get(1) else {
        eprintln!("usage: tpv c06-show <file.json>");
        return Some(2);
    };
    let text = match std::fs::read_to_string(path) {
        Ok(t) => t,
        Err(e) => {
            eprintln!("{e}");
            return Some(2);
        }
    };
    let v: serde_json::Value = match serde_json::from_str(&text) {
        Ok(v) => v,
        Err(e) => {
            eprintln!("{e}");
            return Some(2);
        }
    };
    let case = v.get("case").cloned().unwrap_or(v);
    let s: Scenario = match serde_json::from_value(case) {
        Ok(s) => s,
        Err(e) => {
            eprintln!("not a C06 scenario: {e}");
            return Some(2);
        }
    };
    crate::engine::install_quiet_panic_hook();
    println!("{}", render(&s));
    match run_scenario(&s, true) {
        Ok(out) => {
            for l in out.trace {
                println!("{l}");
            }
            println!("held");
            Some(0)
        }
        Err(Fail::Infra(m)) => {
            println!("INFRA: {m}");
            Some(2)
        }
        Err(Fail::Violation(m)) => {
            println!("VIOLATION: {m}");
            Some(1)
        }
    }
}

fn run(ctx: &mut RunCtx) {
    let tier = ctx.tier;
    ctx.search("timeline", scenario_strategy(), tier.pick(15_000, 400_000), check);
    let rejected = ctx
        .stats
        .labels
        .get("compile=rejected_or_unobservable")
        .copied()
        .unwrap_or(0);
    if rejected > 0 {
        let why: Vec<String> = ctx
            .stats
            .labels
            .keys()
            .filter(|k| k.starts_with("infra: "))
            .take(3)
            .cloned()
            .collect();
        ctx.inconclusive(format!(
            "{rejected} generated configuration(s) were rejected by the compiler or could not be observed: {}",
            why.join(" | ")
        ));
    }
}
