//! C04 - standard function blocks follow the IEC timing diagrams on every trace.
//!
//! Two drivers against one IEC model (`c04/model.rs`, written from IEC 61131-3 Ed.3 6.6.3.5,
//! Tables 43-46 / Fig. 15 and the property text):
//!
//! 1. `pure`: generated traces through the public structs
//!    `trust_runtime::stdlib::fbs::{Ton,Tof,Tp,Ctu,Ctd,Ctud,RTrig,FTrig,Sr,Rs}::step`.
//! 2. `harness`: generated ST programs (1-4 instances of mixed FB types incl. the _LTIME and
//!    typed counter variants, 1-2 call sites each, unconditional or under a generated guard)
//!    run through `trust_runtime::harness::TestHarness` (`advance_time` + `cycle`). An
//!    instance that is skipped accumulates the skipped time at its next call; two call sites
//!    of one instance in one cycle give a dt = 0 call; every instance is compared with its
//!    own model, so any cross-talk between instances shows up as a mismatch.
//!
//! Plus two enumerated long traces that drive CTU to the upper limit of its type (the only
//! counter that cannot be loaded with a value near the limit).

use std::cell::RefCell;

use proptest::prelude::*;
use serde_json::json;
use trust_runtime::harness::TestHarness;
use trust_runtime::stdlib::fbs::{Ctd, Ctu, Ctud, FTrig, RTrig, Rs, Sr, Tof, Ton, Tp};
use trust_runtime::value::{Duration, Value};

use crate::engine::tape::tape_strategy;
use crate::engine::{catch, Probe, PropertyInfo, RunCtx};

#[path = "c04/tgen.rs"]
pub mod tgen;
#[path = "c04/model.rs"]
pub mod model;

use tgen::{cond_eval, cond_text, fb_type, FbType, HCase, PStep, PureCase, ValTy};
use model::{Fam, Inp, Model, Out};

pub fn info() -> PropertyInfo {
    PropertyInfo {
        id: "C04",
        level: "exploration",
        rule: "cases = (pure) one generated trace of 1-60 calls through a stdlib::fbs struct, (harness) one generated ST program with 1-4 standard FB instances and 1-40 cycles through TestHarness; non-trivial = at least one output transition between consecutive calls of an instance (timer Q toggles, counter Q/QU/QD toggles i.e. CV crosses PV or 0, an edge detector fires, a bistable flips) or a counter is asked to count at its type limit; distinct by SHA-256 of the serialised case",
        assumptions: &[
            "PVmax/PVmin of a counter are the limits of its integer type (IEC leaves them implementer specific; docs/specs/08 says the counter saturates at the type limits)",
            "R_TRIG/F_TRIG follow the IEC bodies literally (M initially FALSE): F_TRIG fires on a first call with CLK=FALSE, R_TRIG on a first call with CLK=TRUE",
            "harness driver: the first call of an instance has no previous call, so no time is attributed to it; the runtime clock is an i64 nanosecond count, so the sum of all steps of one harness trace is kept <= i64::MAX (single steps up to i64::MAX are generated; the pure driver has no such bound)",
            "negative PT is treated as T#0s (IEC does not define it; ET range asserted is 0..=max(PT,0))",
            "ET after a TOF/TP has expired and is idle is not asserted beyond its range; after PT changes during a running episode only the ET range and ET monotonicity are asserted until the episode ends",
        ],
        workers_quick: 8,
        workers_thorough: 16,
        address_space_limit: 0,
        watchdog_quick_s: 900,
        watchdog_thorough_s: 7200,
        run,
    }
}

/// Helper subcommands (child processes of this check); None = not mine.
pub fn helper(_args: &[String]) -> Option<i32> {
    None
}

// ------------------------------------------------------------------------------------------
// driver 1: pure structs
// ------------------------------------------------------------------------------------------

enum Real {
    Ton(Ton),
    Tof(Tof),
    Tp(Tp),
    Ctu(Ctu),
    Ctd(Ctd),
    Ctud(Ctud),
    RTrig(RTrig),
    FTrig(FTrig),
    Sr(Sr),
    Rs(Rs),
}

impl Real {
    fn new(fam: Fam) -> Real {
        match fam {
            Fam::Ton => Real::Ton(Ton::new()),
            Fam::Tof => Real::Tof(Tof::new()),
            Fam::Tp => Real::Tp(Tp::new()),
            Fam::Ctu => Real::Ctu(Ctu::new()),
            Fam::Ctd => Real::Ctd(Ctd::new()),
            Fam::Ctud => Real::Ctud(Ctud::new()),
            Fam::RTrig => Real::RTrig(RTrig::new()),
            Fam::FTrig => Real::FTrig(FTrig::new()),
            Fam::Sr => Real::Sr(Sr::new()),
            Fam::Rs => Real::Rs(Rs::new()),
        }
    }

    fn step(&mut self, i: &Inp, dt: i64) -> Out {
        let pt = Duration::from_nanos(i.p.clamp(i64::MIN as i128, i64::MAX as i128) as i64);
        let d = Duration::from_nanos(dt);
        let pv = i.p.clamp(i16::MIN as i128, i16::MAX as i128) as i16;
        let timer = |o: trust_runtime::stdlib::fbs::TimerOutput| Out {
            q: o.q,
            q2: false,
            v: o.et.as_nanos() as i128,
        };
        let bit = |q: bool| Out {
            q,
            q2: false,
            v: 0,
        };
        match self {
            Real::Ton(f) => timer(f.step(i.a, pt, d)),
            Real::Tof(f) => timer(f.step(i.a, pt, d)),
            Real::Tp(f) => timer(f.step(i.a, pt, d)),
            Real::Ctu(f) => {
                let o = f.step(i.a, i.r, pv);
                Out {
                    q: o.q,
                    q2: false,
                    v: o.cv as i128,
                }
            }
            Real::Ctd(f) => {
                let o = f.step(i.a, i.l, pv);
                Out {
                    q: o.q,
                    q2: false,
                    v: o.cv as i128,
                }
            }
            Real::Ctud(f) => {
                let o = f.step(i.a, i.b, i.r, i.l, pv);
                Out {
                    q: o.qu,
                    q2: o.qd,
                    v: o.cv as i128,
                }
            }
            Real::RTrig(f) => bit(f.step(i.a)),
            Real::FTrig(f) => bit(f.step(i.a)),
            Real::Sr(f) => bit(f.step(i.a, i.r)),
            Real::Rs(f) => bit(f.step(i.a, i.r)),
        }
    }
}

fn fmt_inp(fam: Fam, i: &Inp) -> String {
    match fam {
        Fam::Ton | Fam::Tof | Fam::Tp => format!("IN={} PT={}ns", i.a, i.p),
        Fam::Ctu => format!("CU={} R={} PV={}", i.a, i.r, i.p),
        Fam::Ctd => format!("CD={} LD={} PV={}", i.a, i.l, i.p),
        Fam::Ctud => format!("CU={} CD={} R={} LD={} PV={}", i.a, i.b, i.r, i.l, i.p),
        Fam::RTrig | Fam::FTrig => format!("CLK={}", i.a),
        Fam::Sr => format!("S1={} R={}", i.a, i.r),
        Fam::Rs => format!("S={} R1={}", i.a, i.r),
    }
}

fn fmt_out(fam: Fam, o: &Out) -> String {
    match fam {
        Fam::Ton | Fam::Tof | Fam::Tp => format!("Q={} ET={}ns", o.q, o.v),
        Fam::Ctu | Fam::Ctd => format!("Q={} CV={}", o.q, o.v),
        Fam::Ctud => format!("QU={} QD={} CV={}", o.q, o.q2, o.v),
        Fam::RTrig | Fam::FTrig => format!("Q={}", o.q),
        Fam::Sr | Fam::Rs => format!("Q1={}", o.q),
    }
}

fn pure_history(fam: Fam, steps: &[PStep], outs: &[Out]) -> String {
    let mut s = String::new();
    let from = steps.len().saturating_sub(12);
    for (k, st) in steps.iter().enumerate().skip(from) {
        s.push_str(&format!(
            "\n    call {k}: dt={}ns {} -> {}",
            st.dt,
            fmt_inp(fam, &st.i),
            outs.get(k).map(|o| fmt_out(fam, o)).unwrap_or_else(|| "<panic>".into())
        ));
    }
    s
}

fn label_model(probe: &mut Probe, prefix: &str, m: &Model) {
    for e in &m.events {
        probe.label(format!("{prefix}{}:{e}", m.fam.name()));
    }
    if m.transitions > 0 {
        probe.label(format!("{prefix}{}:output_transition", m.fam.name()));
    }
}

fn model_nontrivial(m: &Model) -> bool {
    m.transitions > 0 || m.events.iter().any(|e| e.starts_with("saturated"))
}

fn check_pure(case: &PureCase, probe: &mut Probe) -> Result<(), String> {
    let fam = case.fam;
    let mut real = Real::new(fam);
    let mut model = Model::new(fam, i16::MIN as i128, i16::MAX as i128);
    let mut outs: Vec<Out> = Vec::with_capacity(case.steps.len());
    let mut extreme = false;
    for (k, st) in case.steps.iter().enumerate() {
        if st.dt < 0 {
            return Err("malformed case: negative dt".into());
        }
        if st.dt > i64::MAX / 4 {
            extreme = true;
        }
        let out = match catch(|| real.step(&st.i, st.dt)) {
            Ok(o) => o,
            Err(p) => {
                return Err(format!(
                    "{} (pure struct) panicked at call {k}: {p}{}",
                    fam.name(),
                    pure_history(fam, &case.steps[..=k], &outs)
                ))
            }
        };
        outs.push(out);
        if let Err(e) = model.call(&st.i, st.dt as i128, &out) {
            return Err(format!(
                "{} (pure struct) call {k}: {e}{}",
                fam.name(),
                pure_history(fam, &case.steps[..=k], &outs)
            ));
        }
    }
    probe.label(format!("pure:{}", fam.name()));
    label_model(probe, "pure:", &model);
    if extreme && fam.is_timer() {
        probe.label("pure:extreme_dt");
    }
    if model_nontrivial(&model) {
        probe.nontrivial(&serde_json::to_vec(case).unwrap_or_default());
        probe.sample(json!({"driver": "pure", "kind": fam.name(), "calls": case.steps.len(), "output_transitions": model.transitions, "events": model.events}));
    }
    Ok(())
}

// ------------------------------------------------------------------------------------------
// driver 2: ST programs through TestHarness
// ------------------------------------------------------------------------------------------

/// Names of the input variables handed to one call.
struct ArgNames<'a> {
    a: &'a str,
    b: &'a str,
    r: &'a str,
    l: &'a str,
    p: &'a str,
}

fn call_args(ty: &FbType, n: &ArgNames) -> String {
    let ArgNames { a, b, r, l, p } = n;
    match ty.fam {
        Fam::Ton | Fam::Tof | Fam::Tp => format!("IN := {a}, PT := {p}"),
        Fam::Ctu => format!("CU := {a}, R := {r}, PV := {p}"),
        Fam::Ctd => format!("CD := {a}, LD := {l}, PV := {p}"),
        Fam::Ctud => format!("CU := {a}, CD := {b}, R := {r}, LD := {l}, PV := {p}"),
        Fam::RTrig | Fam::FTrig => format!("CLK := {a}"),
        Fam::Sr => format!("S1 := {a}, R := {r}"),
        Fam::Rs => format!("S := {a}, R1 := {r}"),
    }
}

/// Arguments of a call of the user wrapper FB around `ty`.
fn wrapper_args(ty: &FbType, n: &ArgNames) -> String {
    let ArgNames { a, b, r, l, p } = n;
    match ty.fam {
        Fam::Ton | Fam::Tof | Fam::Tp => format!("wa := {a}, wp := {p}"),
        Fam::Ctu => format!("wa := {a}, wr := {r}, wp := {p}"),
        Fam::Ctd => format!("wa := {a}, wl := {l}, wp := {p}"),
        Fam::Ctud => format!("wa := {a}, wb := {b}, wr := {r}, wl := {l}, wp := {p}"),
        Fam::RTrig | Fam::FTrig => format!("wa := {a}"),
        Fam::Sr | Fam::Rs => format!("wa := {a}, wr := {r}"),
    }
}

/// (output parameter, suffix of the capture variable)
fn outputs(ty: &FbType, wrapped: bool) -> Vec<(&'static str, char)> {
    if wrapped {
        return match ty.fam {
            Fam::Ton | Fam::Tof | Fam::Tp | Fam::Ctu | Fam::Ctd => vec![("wq", 'q'), ("wv", 'v')],
            Fam::Ctud => vec![("wq", 'q'), ("ww", 'w'), ("wv", 'v')],
            _ => vec![("wq", 'q')],
        };
    }
    match ty.fam {
        Fam::Ton | Fam::Tof | Fam::Tp => vec![("Q", 'q'), ("ET", 'v')],
        Fam::Ctu | Fam::Ctd => vec![("Q", 'q'), ("CV", 'v')],
        Fam::Ctud => vec![("QU", 'q'), ("QD", 'w'), ("CV", 'v')],
        Fam::RTrig | Fam::FTrig => vec![("Q", 'q')],
        Fam::Sr | Fam::Rs => vec![("Q1", 'q')],
    }
}

fn wrapper_text(ty: &FbType) -> String {
    let mut s = format!("FUNCTION_BLOCK W_{}\nVAR_INPUT wa : BOOL; wb : BOOL; wr : BOOL; wl : BOOL;", ty.name);
    if ty.val != ValTy::None {
        s.push_str(&format!(" wp : {};", ty.val.st_name()));
    }
    s.push_str(" END_VAR\nVAR_OUTPUT wq : BOOL; ww : BOOL;");
    if ty.val != ValTy::None {
        s.push_str(&format!(" wv : {};", ty.val.st_name()));
    }
    s.push_str(&format!(" END_VAR\nVAR f : {}; END_VAR\n", ty.name));
    let names = ArgNames {
        a: "wa",
        b: "wb",
        r: "wr",
        l: "wl",
        p: "wp",
    };
    let mut call = format!("f({}", call_args(ty, &names));
    for ((param, _), (wparam, _)) in outputs(ty, false).iter().zip(outputs(ty, true).iter()) {
        call.push_str(&format!(", {param} => {wparam}"));
    }
    s.push_str(&call);
    s.push_str(");\nEND_FUNCTION_BLOCK\n");
    s
}

fn is_wrapped(case: &HCase, k: usize) -> bool {
    case.wrapped.get(k).copied().unwrap_or(false)
}

pub fn program_text(case: &HCase, types: &[&'static FbType]) -> String {
    let mut s = String::new();
    let mut done: Vec<&str> = Vec::new();
    for (k, ty) in types.iter().enumerate() {
        if is_wrapped(case, k) && !done.contains(&ty.name) {
            done.push(ty.name);
            s.push_str(&wrapper_text(ty));
        }
    }
    s.push_str("PROGRAM Main\nVAR\n  g0 : BOOL; g1 : BOOL;\n");
    for (k, ty) in types.iter().enumerate() {
        if is_wrapped(case, k) {
            s.push_str(&format!("  f{k} : W_{};\n", ty.name));
        } else {
            s.push_str(&format!("  f{k} : {};\n", ty.name));
        }
        s.push_str(&format!("  a{k} : BOOL; x{k} : BOOL; b{k} : BOOL; r{k} : BOOL; l{k} : BOOL;\n"));
        s.push_str(&format!("  q{k} : BOOL; w{k} : BOOL;\n"));
        if ty.val != ValTy::None {
            s.push_str(&format!("  p{k} : {}; v{k} : {};\n", ty.val.st_name(), ty.val.st_name()));
        }
    }
    for (j, site) in case.sites.iter().enumerate() {
        let ty = types[site.inst];
        s.push_str(&format!("  s{j}m : BOOL; s{j}q : BOOL; s{j}w : BOOL;"));
        if ty.val != ValTy::None {
            s.push_str(&format!(" s{j}v : {};", ty.val.st_name()));
        }
        s.push('\n');
    }
    s.push_str("END_VAR\n");
    for (j, site) in case.sites.iter().enumerate() {
        let k = site.inst;
        let ty = types[k];
        let wrapped = is_wrapped(case, k);
        let primary = if site.alt { format!("x{k}") } else { format!("a{k}") };
        let (b, r, l, p) = (format!("b{k}"), format!("r{k}"), format!("l{k}"), format!("p{k}"));
        let names = ArgNames {
            a: &primary,
            b: &b,
            r: &r,
            l: &l,
            p: &p,
        };
        let mut call = if wrapped {
            format!("f{k}({}", wrapper_args(ty, &names))
        } else {
            format!("f{k}({}", call_args(ty, &names))
        };
        let mut after = String::new();
        for (param, suffix) in outputs(ty, wrapped) {
            let must_bind = ty.any_int && !wrapped && param == "CV";
            if site.bind || must_bind {
                call.push_str(&format!(", {param} => s{j}{suffix}"));
            } else {
                after.push_str(&format!(" s{j}{suffix} := f{k}.{param};"));
            }
        }
        call.push_str(");");
        match cond_text(site.cond) {
            None => s.push_str(&format!("{call}{after} s{j}m := TRUE;\n")),
            Some(c) => s.push_str(&format!("IF {c} THEN\n  {call}{after} s{j}m := TRUE;\nEND_IF;\n")),
        }
    }
    for (k, ty) in types.iter().enumerate() {
        let wrapped = is_wrapped(case, k);
        for (param, suffix) in outputs(ty, wrapped) {
            if ty.any_int && !wrapped && param == "CV" {
                continue;
            }
            s.push_str(&format!("{suffix}{k} := f{k}.{param};\n"));
        }
    }
    s.push_str("END_PROGRAM\n");
    s
}

fn mk_val(ty: ValTy, x: i128) -> Value {
    match ty {
        ValTy::Time => Value::Time(Duration::from_nanos(x as i64)),
        ValTy::LTime => Value::LTime(Duration::from_nanos(x as i64)),
        ValTy::Int => Value::Int(x as i16),
        ValTy::DInt => Value::DInt(x as i32),
        ValTy::LInt => Value::LInt(x as i64),
        ValTy::UDInt => Value::UDInt(x as u32),
        ValTy::ULInt => Value::ULInt(x as u64),
        ValTy::None => Value::Bool(false),
    }
}

fn val_num(v: &Value) -> Option<i128> {
    Some(match v {
        Value::SInt(x) => *x as i128,
        Value::Int(x) => *x as i128,
        Value::DInt(x) => *x as i128,
        Value::LInt(x) => *x as i128,
        Value::USInt(x) => *x as i128,
        Value::UInt(x) => *x as i128,
        Value::UDInt(x) => *x as i128,
        Value::ULInt(x) => *x as i128,
        Value::Time(d) | Value::LTime(d) => d.as_nanos() as i128,
        _ => return None,
    })
}

fn read_bool(h: &TestHarness, name: &str) -> Result<bool, String> {
    match h.get_output(name) {
        Some(Value::Bool(b)) => Ok(b),
        other => Err(format!("variable {name} holds {other:?}, expected a BOOL")),
    }
}

fn read_num(h: &TestHarness, name: &str) -> Result<i128, String> {
    match h.get_output(name) {
        Some(v) => val_num(&v).ok_or_else(|| format!("variable {name} holds {v:?}, expected a number/time")),
        None => Err(format!("variable {name} is missing")),
    }
}

fn read_out(h: &TestHarness, ty: &FbType, prefix: &str, suffix_first: bool, idx: usize, no_cv: bool) -> Result<Out, String> {
    // capture variables are s<j>q / s<j>w / s<j>v, final reads q<k> / w<k> / v<k>
    let name = |c: char| {
        if suffix_first {
            format!("{c}{idx}")
        } else {
            format!("{prefix}{idx}{c}")
        }
    };
    let q = read_bool(h, &name('q'))?;
    let q2 = if ty.fam == Fam::Ctud { read_bool(h, &name('w'))? } else { false };
    let v = if ty.val != ValTy::None && !no_cv {
        read_num(h, &name('v'))?
    } else {
        0
    };
    Ok(Out { q, q2, v })
}

fn case_types(case: &HCase) -> Result<Vec<&'static FbType>, String> {
    let mut types = Vec::new();
    for n in &case.insts {
        types.push(fb_type(n).ok_or_else(|| format!("malformed case: unknown FB type {n}"))?);
    }
    if types.is_empty() {
        return Err("malformed case: no instance".into());
    }
    for s in &case.sites {
        if s.inst >= types.len() {
            return Err("malformed case: call site of a missing instance".into());
        }
    }
    for c in &case.cycles {
        if c.inp.len() != types.len() || c.alt.len() != types.len() || c.dt < 0 {
            return Err("malformed case: cycle does not match the instance list".into());
        }
    }
    Ok(types)
}

thread_local! {
    static INFRA: RefCell<Vec<String>> = const { RefCell::new(Vec::new()) };
}

fn infra(msg: String) {
    INFRA.with(|v| {
        let mut v = v.borrow_mut();
        if v.len() < 5 && !v.contains(&msg) {
            v.push(msg);
        }
    });
}

fn check_harness(case: &HCase, probe: &mut Probe) -> Result<(), String> {
    let types = case_types(case)?;
    let text = program_text(case, &types);
    let mut h = match catch(|| TestHarness::from_source(&text)) {
        Ok(Ok(h)) => h,
        Ok(Err(e)) => {
            // the generator only emits constructs the probes showed to be accepted: a compile
            // error is trouble of the check, not a verdict on the function blocks
            infra(format!("generated program does not compile: {e:?}\n{text}"));
            probe.label("harness:compile_error(inconclusive)");
            return Ok(());
        }
        Err(p) => {
            infra(format!("compiling the generated program panicked: {p}\n{text}"));
            probe.label("harness:compile_panic(inconclusive)");
            return Ok(());
        }
    };
    let n = types.len();
    let mut models: Vec<Model> = types
        .iter()
        .map(|t| {
            let (lo, hi) = t.val.limits();
            Model::new(t.fam, lo, hi)
        })
        .collect();
    let mut last_call: Vec<Option<i128>> = vec![None; n];
    let mut log: Vec<String> = Vec::new();
    let mut now: i128 = 0;
    let mut flags: Vec<&'static str> = Vec::new();
    let mut flag = |f: &'static str| {
        if !flags.contains(&f) {
            flags.push(f);
        }
    };
    let ctx = |log: &[String], text: &str| {
        let from = log.len().saturating_sub(14);
        format!("\n  history (last calls):{}\n  program:\n{}", log[from..].iter().map(|l| format!("\n    {l}")).collect::<String>(), text)
    };
    for (c, cy) in case.cycles.iter().enumerate() {
        h.set_input("g0", cy.g0);
        h.set_input("g1", cy.g1);
        for (k, ty) in types.iter().enumerate() {
            let i = &cy.inp[k];
            let (lo, hi) = ty.val.limits();
            if ty.val != ValTy::None && (i.p < lo || i.p > hi) {
                return Err("malformed case: preset outside the type's range".into());
            }
            h.set_input(&format!("a{k}"), i.a);
            h.set_input(&format!("x{k}"), cy.alt[k]);
            h.set_input(&format!("b{k}"), i.b);
            h.set_input(&format!("r{k}"), i.r);
            h.set_input(&format!("l{k}"), i.l);
            if ty.val != ValTy::None {
                h.set_input(&format!("p{k}"), mk_val(ty.val, i.p));
            }
        }
        for j in 0..case.sites.len() {
            h.set_input(&format!("s{j}m"), false);
        }
        if now + cy.dt as i128 > i64::MAX as i128 {
            return Err("malformed case: total time exceeds the clock's range".into());
        }
        now += cy.dt as i128;
        if cy.dt > i64::MAX / 4 {
            flag("harness:extreme_dt");
        }
        let res = match catch(|| {
            h.advance_time(Duration::from_nanos(cy.dt));
            h.cycle()
        }) {
            Ok(r) => r,
            Err(p) => {
                return Err(format!("cycle {c} (dt={}ns) panicked: {p}{}", cy.dt, ctx(&log, &text)));
            }
        };
        if !res.errors.is_empty() {
            return Err(format!(
                "cycle {c} (dt={}ns) faulted: {:?}{}",
                cy.dt,
                res.errors,
                ctx(&log, &text)
            ));
        }
        let mut called_this_cycle = vec![false; n];
        for (j, site) in case.sites.iter().enumerate() {
            let k = site.inst;
            let ty = types[k];
            let executed = cond_eval(site.cond, cy.g0, cy.g1);
            let marker = read_bool(&h, &format!("s{j}m"))?;
            if marker != executed {
                infra(format!(
                    "call-site guard {:?} evaluated to {marker} with g0={} g1={} (expected {executed}); not a function-block matter\n{text}",
                    cond_text(site.cond),
                    cy.g0,
                    cy.g1
                ));
                return Ok(());
            }
            if !executed {
                continue;
            }
            let mut inp = cy.inp[k];
            if site.alt {
                inp.a = cy.alt[k];
            }
            let dt = match last_call[k] {
                Some(t) => now - t,
                None => 0,
            };
            if let Some(t) = last_call[k] {
                if dt > cy.dt as i128 {
                    flag("harness:skipped_then_called");
                }
                if t == now && called_this_cycle[k] {
                    flag("harness:two_calls_in_one_cycle");
                }
            }
            last_call[k] = Some(now);
            called_this_cycle[k] = true;
            let out = read_out(&h, ty, "s", false, j, false).map_err(|e| format!("{e}{}", ctx(&log, &text)))?;
            log.push(format!(
                "cycle {c} site {j}: f{k} ({}) dt={dt}ns {} -> {}",
                ty.name,
                fmt_inp(ty.fam, &inp),
                fmt_out(ty.fam, &out)
            ));
            if let Err(e) = models[k].call(&inp, dt, &out) {
                return Err(format!(
                    "cycle {c}, call site {j}, instance f{k} : {}: {e}{}",
                    ty.name,
                    ctx(&log, &text)
                ));
            }
        }
        // outputs as seen at the end of the cycle: those of the instance's last call, or the
        // initial values if it has not been called yet - whatever the other instances did
        for (k, ty) in types.iter().enumerate() {
            let no_cv = ty.any_int && !is_wrapped(case, k);
            let got = read_out(&h, ty, "", true, k, no_cv).map_err(|e| format!("{e}{}", ctx(&log, &text)))?;
            let mut want = if models[k].calls > 0 { models[k].last_out } else { Out::default() };
            if no_cv {
                want.v = 0;
            }
            if models[k].calls == 0 {
                flag("harness:instance_not_called_yet");
            }
            if got != want {
                return Err(format!(
                    "cycle {c}: outputs of f{k} : {} read at the end of the cycle are {} but its last call returned {} ({}){}",
                    ty.name,
                    fmt_out(ty.fam, &got),
                    fmt_out(ty.fam, &want),
                    if called_this_cycle[k] { "called in this cycle" } else { "NOT called in this cycle: another instance's call changed it" },
                    ctx(&log, &text)
                ));
            }
        }
    }
    probe.label(format!("harness:instances={n}"));
    for ty in &types {
        probe.label(format!("harness:type={}", ty.name));
    }
    if case.sites.iter().any(|s| s.cond != 0) {
        probe.label("harness:guarded_call_site");
    }
    if (0..n).any(|k| is_wrapped(case, k)) {
        probe.label("harness:instance_inside_user_fb");
    }
    {
        let mut names: Vec<&str> = types.iter().map(|t| t.name).collect();
        names.sort();
        let before = names.len();
        names.dedup();
        if names.len() < before {
            probe.label("harness:two_instances_of_one_type");
        }
    }
    for f in flags {
        probe.label(f);
    }
    for m in &models {
        label_model(probe, "harness:", m);
    }
    if models.iter().any(model_nontrivial) {
        probe.nontrivial(&serde_json::to_vec(case).unwrap_or_default());
        probe.sample(json!({
            "driver": "harness",
            "instances": case.insts,
            "call_sites": case.sites.len(),
            "cycles": case.cycles.len(),
            "output_transitions": models.iter().map(|m| m.transitions).collect::<Vec<_>>(),
        }));
    }
    Ok(())
}

// ------------------------------------------------------------------------------------------
// enumerated: CTU driven to the upper limit of its type
// ------------------------------------------------------------------------------------------

fn ctu_saturation_pure(probe: &mut Probe) -> Result<(), String> {
    let mut real = Ctu::new();
    let mut model = Model::new(Fam::Ctu, i16::MIN as i128, i16::MAX as i128);
    let edges = i16::MAX as u32 + 40;
    for k in 0..2 * edges {
        let inp = Inp {
            a: k % 2 == 0,
            p: if k % 7 == 0 { i16::MAX as i128 } else { 32000 },
            ..Inp::default()
        };
        let out = catch(|| {
            let o = real.step(inp.a, inp.r, inp.p as i16);
            Out {
                q: o.q,
                q2: false,
                v: o.cv as i128,
            }
        })
        .map_err(|p| format!("Ctu (pure struct) panicked at call {k} of the saturation trace: {p}"))?;
        model
            .call(&inp, 0, &out)
            .map_err(|e| format!("Ctu (pure struct) saturation trace, call {k}: {e}"))?;
    }
    if !model.events.contains(&"saturated_high") {
        return Err("saturation trace did not reach the limit (check bug)".into());
    }
    probe.label("pure:CTU:long_saturation_trace");
    probe.nontrivial(b"ctu_saturation_pure");
    Ok(())
}

fn ctu_saturation_harness(probe: &mut Probe) -> Result<(), String> {
    let text = "PROGRAM Main\nVAR\n  f0 : CTU; f1 : CTU_INT; a : BOOL; p : INT; q0 : BOOL; v0 : INT; q1 : BOOL; v1 : INT;\nEND_VAR\nf0(CU := a, R := FALSE, PV := p, Q => q0, CV => v0);\nf1(CU := a, R := FALSE, PV := p); q1 := f1.Q; v1 := f1.CV;\nEND_PROGRAM\n";
    let mut h = match TestHarness::from_source(text) {
        Ok(h) => h,
        Err(e) => {
            infra(format!("saturation program does not compile: {e:?}"));
            return Ok(());
        }
    };
    let mut m0 = Model::new(Fam::Ctu, i16::MIN as i128, i16::MAX as i128);
    let mut m1 = Model::new(Fam::Ctu, i16::MIN as i128, i16::MAX as i128);
    let edges = i16::MAX as u32 + 40;
    for k in 0..2 * edges {
        let inp = Inp {
            a: k % 2 == 0,
            p: if k % 7 == 0 { i16::MAX as i128 } else { 32000 },
            ..Inp::default()
        };
        h.set_input("a", inp.a);
        h.set_input("p", Value::Int(inp.p as i16));
        let res = catch(|| h.cycle()).map_err(|p| format!("CTU saturation program panicked in cycle {k}: {p}"))?;
        if !res.errors.is_empty() {
            return Err(format!("CTU saturation program faulted in cycle {k}: {:?}", res.errors));
        }
        let o0 = Out {
            q: read_bool(&h, "q0")?,
            q2: false,
            v: read_num(&h, "v0")?,
        };
        let o1 = Out {
            q: read_bool(&h, "q1")?,
            q2: false,
            v: read_num(&h, "v1")?,
        };
        m0.call(&inp, 0, &o0).map_err(|e| format!("CTU (harness) saturation trace, cycle {k}: {e}"))?;
        m1.call(&inp, 0, &o1).map_err(|e| format!("CTU_INT (harness) saturation trace, cycle {k}: {e}"))?;
    }
    probe.label("harness:CTU:long_saturation_trace");
    probe.nontrivial(b"ctu_saturation_harness");
    Ok(())
}

fn run(ctx: &mut RunCtx) {
    let tier = ctx.tier;

    ctx.search(
        "pure",
        tape_strategy(tgen::PURE_TAPE).prop_map(|t| tgen::pure_from_tape(&t)),
        tier.pick(100_000, 2_000_000),
        check_pure,
    );

    ctx.search(
        "harness",
        tape_strategy(tgen::HARNESS_TAPE).prop_map(|t| tgen::harness_from_tape(&t)),
        tier.pick(16_000, 300_000),
        check_harness,
    );

    if ctx.only_replay.is_none() {
        if ctx.worker == 0 {
            ctx.enumerated("saturation_pure", &json!({"trace": "CTU pure, 32807 rising edges"}), ctu_saturation_pure);
        }
        if ctx.worker == 1 % ctx.nworkers {
            ctx.enumerated(
                "saturation_harness",
                &json!({"trace": "CTU and CTU_INT through TestHarness, 32807 rising edges"}),
                ctu_saturation_harness,
            );
        }
    }

    let msgs: Vec<String> = INFRA.with(|v| v.borrow_mut().drain(..).collect());
    for m in msgs {
        ctx.inconclusive(m);
    }
}
