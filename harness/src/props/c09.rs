//! C09 - restart semantics: warm keeps exactly RETAIN data, cold equals a fresh start.
//!
//! A case is a `Scenario`: generated ST sources (CONFIGURATION with VAR_GLOBAL blocks of
//! every retain qualifier, 1-3 programs with VAR blocks of every qualifier over all
//! retainable types, FB and class instances with state (nested FB instances, base-class
//! chain; RETAIN/PERSISTENT ones at global level), AT %I/%Q variables at global, program and FB
//! level, VAR_ACCESS paths, tasks with INTERVAL/SINGLE and FB associations) plus a history
//! of ops {Cycle(inputs, dt), Input, Restart(Warm|Cold), PowerCycle (save, new runtime, load),
//! PowerLoss (no save, new runtime, same store, load), restart_with_retain, Fault}.
//!
//! Oracle: at every restart-type op a *reference runtime* R is built freshly from the same
//! sources. Cold: R is left as built. Warm / PowerCycle: the values the RETAIN/PERSISTENT
//! variables had before the op are written into R through the storage API (this is the
//! model "retained = value before, everything else = declared initial value"). The runtime
//! under test A (restarted, or - for PowerCycle - rebuilt and loaded from a FileRetainStore)
//! must then have the same variables as R (structural storage dump modulo instance ids;
//! for Cold also time, fault latch, frames, cycle counter, overrun counters), and for every
//! following op of the history, which is applied to both, the same cycle errors, variables,
//! meta state, %Q image and VAR_ACCESS reads - so a binding that restart disconnected shows
//! as a difference in the first cycle that exercises it.

use std::collections::{BTreeMap, BTreeSet};
use std::sync::atomic::{AtomicU64, Ordering};

use proptest::prelude::*;
use serde::{Deserialize, Serialize};
use serde_json::json;
use trust_runtime::harness::TestHarness;
use trust_runtime::io::IoAddress;
use trust_runtime::memory::InstanceId;
use trust_runtime::retain::FileRetainStore;
use trust_runtime::value::{Duration, Value};
use trust_runtime::{RestartMode, Runtime};

use crate::engine::tape::{tape_strategy, Tape};
use crate::engine::{Probe, PropertyInfo, RunCtx, Tier};

#[path = "c09/gen.rs"]
mod gen;

pub const K_RETAIN_FB: &str = "C09-retain-fb-instance";
pub const K_VARCONFIG: &str = "C09-var-config-init-lost";
pub const K_MEM: &str = "C09-marker-memory-not-reset";
pub const K_RWR: &str = "C09-restart-with-retain-stale-store";

pub fn info() -> PropertyInfo {
    PropertyInfo {
        id: "C09",
        level: "exploration",
        rule: "cases = generated CONFIGURATION/programs (qualifier x scope x type mixes, FB instances, AT %I/%Q, VAR_ACCESS, INTERVAL/SINGLE tasks, FB task associations) + histories of Cycle/Input/Restart(Warm|Cold)/PowerCycle/Fault ops; non-trivial = the history contains a restart-type op after >= 1 cycle such that a retained AND a non-retained variable differ from their initial values at that point, and the ops after it contain >= 1 fault-free cycle with a non-zero input while the case declares a %Q binding or VAR_ACCESS path; distinct by SHA-256 of sources + ops",
        assumptions: &[
            "declared initial value of a variable = its value in a runtime freshly built from the same sources (the property's own definition of a fresh start); the check does not re-derive initial values from the literal text",
            "the physical %Q image is compared only after a cycle that completed on both runtimes (restart leaves the previous %Q image in place until the first cycle publishes; the property speaks of outputs for a subsequent input trace)",
            "every cycle of a continuation drives every declared %I address on both runtimes (inputs are environment, not state)",
            "after a warm restart / power cycle only variables are demanded by the property; the continuation differential against the model runtime is run when time, fault latch and cycle counter agree as well (they do on the real code: restart resets them in both modes)",
            "SINGLE trigger variables are declared non-retained (the property does not define the task edge state after a warm restart)",
            "open finding C09-retain-fb-instance, excluded by construction and counted: FB/class instances are never declared RETAIN/PERSISTENT at program level, and a history whose configuration declares a RETAIN/PERSISTENT FB/class instance at global level contains no power cycle; global-level retained instances ARE generated and judged for warm (whole state kept, incl. nested instances and the base-class chain) and cold restarts",
            "VAR_CONFIG initial values, %M bindings and restart_with_retain ops are generated unless their (fixed) findings are re-opened",
            "initialisers never read other variables (whether a non-retained variable initialised from a RETAIN global sees the retained or the initial value after a warm restart is not stated by the property)",
            "power cycle in the quick tier = save -> new Runtime from the same sources -> load through FileRetainStore inside one process; the thorough tier additionally loads the file in a separate tpv process and compares its dump",
            "power loss = the runtime is dropped without a save, a new runtime is built, the same store file is attached and loaded. What the store must hold is derived from the property at the specified synchronisation points only: explicit save_retain_store, the save of a power cycle, and restart_with_retain (afterwards the store has to agree with the restarted memory: initial values after Cold, the kept values after Warm); a store never written restores nothing. When a periodic save interval is configured, any cycle since the last synchronisation makes the store contents undetermined (the time of a periodic save is not specified) and only the non-retained variables are demanded after the load",
        ],
        workers_quick: 8,
        workers_thorough: 16,
        address_space_limit: 0,
        watchdog_quick_s: 900,
        watchdog_thorough_s: 7200,
        run,
    }
}

// ---------------------------------------------------------------------------------------
// case format

#[derive(Clone, Debug, Serialize, Deserialize, PartialEq)]
pub struct InputSpec {
    pub addr: String,
    /// 1, 8, 16, 32 or 64
    pub bits: u8,
}

#[derive(Clone, Debug, Serialize, Deserialize, PartialEq)]
pub enum Op {
    /// write every declared input (index-aligned with `Scenario::inputs`), advance time, cycle
    Cycle { inputs: Vec<u64>, dt_ns: i64 },
    /// direct write of one %I address without running a cycle
    Input { index: usize, value: u64 },
    Restart { cold: bool },
    /// save retain store -> new runtime from the same sources -> load
    PowerCycle,
    /// latch a fault from outside (Runtime::simulation_fault)
    Fault,
    /// TestHarness::restart_with_retain(mode): the sequence the resource loop runs on a
    /// restart request when a retain store is configured
    RestartWithRetain { cold: bool },
    /// save the retain store now (hand-written reproducers)
    SaveStore,
    /// power loss: the runtime is dropped as it is (NO save), a new runtime is built from the
    /// same sources, the SAME store is attached and loaded - what comes back is whatever the
    /// store held after its last synchronisation
    PowerLoss,
}

#[derive(Clone, Debug, Serialize, Deserialize)]
pub struct Scenario {
    pub source: String,
    /// keys of the RETAIN/PERSISTENT variables: "g:<global>" or "p:<ProgramInstance>.<var>"
    pub retained: Vec<String>,
    pub inputs: Vec<InputSpec>,
    /// %Q addresses read after every completed cycle
    pub outputs: Vec<String>,
    /// VAR_ACCESS names read after every op
    pub access: Vec<String>,
    pub ops: Vec<Op>,
    /// Some(ms): a FileRetainStore is configured from the start with this save interval
    /// (negative = no periodic save)
    #[serde(default)]
    pub store_interval_ms: Option<i64>,
    #[serde(default)]
    pub labels: Vec<String>,
    #[serde(default)]
    pub excluded: Vec<String>,
}

// ---------------------------------------------------------------------------------------
// structural storage dump (modulo instance ids)

fn dump_value(rt: &Runtime, v: &Value, depth: usize) -> String {
    match v {
        Value::Instance(id) => dump_instance(rt, *id, depth + 1),
        Value::Array(a) => {
            let els: Vec<String> = a
                .elements
                .iter()
                .map(|e| dump_value(rt, e, depth + 1))
                .collect();
            format!("Array{:?}[{}]", a.dimensions, els.join(", "))
        }
        Value::Struct(s) => {
            let fs: Vec<String> = s
                .fields
                .iter()
                .map(|(k, e)| format!("{k}: {}", dump_value(rt, e, depth + 1)))
                .collect();
            format!("Struct {}{{{}}}", s.type_name, fs.join(", "))
        }
        Value::Real(r) => format!("Real({:?}/{:#x})", r, r.to_bits()),
        Value::LReal(r) => format!("LReal({:?}/{:#x})", r, r.to_bits()),
        Value::Reference(Some(_)) => "Reference(Some)".to_string(),
        other => format!("{other:?}"),
    }
}

fn dump_instance(rt: &Runtime, id: InstanceId, depth: usize) -> String {
    if depth > 16 {
        return "<deep>".into();
    }
    let Some(inst) = rt.storage().get_instance(id) else {
        return "<dangling instance>".into();
    };
    let vars: Vec<String> = inst
        .variables
        .iter()
        .map(|(k, v)| format!("{k}: {}", dump_value(rt, v, depth)))
        .collect();
    let parent = match inst.parent {
        Some(p) => format!(" parent={}", dump_instance(rt, p, depth + 1)),
        None => String::new(),
    };
    format!("Inst {}{{{}}}{}", inst.type_name, vars.join(", "), parent)
}

#[derive(Clone, Debug, Default, PartialEq, Serialize, Deserialize)]
pub struct Dump {
    /// "g:<global>" / "p:<ProgramInstance>.<var>" -> rendered value
    pub vars: BTreeMap<String, String>,
    /// time, fault latch, frames, cycle counter, overrun counters, retain area
    pub meta: BTreeMap<String, String>,
}

pub fn dump(rt: &Runtime) -> Dump {
    let mut d = Dump::default();
    for (k, v) in rt.storage().globals() {
        if rt.programs().contains_key(k) {
            if let Value::Instance(id) = v {
                match rt.storage().get_instance(*id) {
                    Some(inst) => {
                        d.vars
                            .insert(format!("p:{k}"), format!("Inst {}", inst.type_name));
                        for (name, value) in &inst.variables {
                            d.vars
                                .insert(format!("p:{k}.{name}"), dump_value(rt, value, 0));
                        }
                    }
                    None => {
                        d.vars.insert(format!("p:{k}"), "<dangling instance>".into());
                    }
                }
                continue;
            }
        }
        d.vars.insert(format!("g:{k}"), dump_value(rt, v, 0));
    }
    for (k, v) in rt.storage().retain() {
        d.meta.insert(format!("retain_area:{k}"), dump_value(rt, v, 0));
    }
    d.meta
        .insert("frames".into(), rt.storage().frames().len().to_string());
    d.meta
        .insert("time_ns".into(), rt.current_time().as_nanos().to_string());
    d.meta.insert(
        "fault_latch".into(),
        format!("{} {:?}", rt.faulted(), rt.last_fault()),
    );
    d.meta
        .insert("cycle_counter".into(), rt.cycle_counter().to_string());
    for t in rt.tasks() {
        d.meta.insert(
            format!("overrun:{}", t.name),
            format!("{:?}", rt.task_overrun_count(&t.name)),
        );
    }
    d
}

fn first_diff(a: &BTreeMap<String, String>, b: &BTreeMap<String, String>) -> Option<String> {
    let keys: BTreeSet<&String> = a.keys().chain(b.keys()).collect();
    for k in keys {
        let (x, y) = (a.get(k), b.get(k));
        if x != y {
            let show = |v: Option<&String>| match v {
                Some(s) => s.clone(),
                None => "<absent>".to_string(),
            };
            return Some(format!("{k}: got {} | expected {}", show(x), show(y)));
        }
    }
    None
}

// ---------------------------------------------------------------------------------------
// driving a runtime

fn build(source: &str) -> Result<TestHarness, String> {
    TestHarness::from_source(source).map_err(|e| e.to_string())
}

fn input_value(bits: u8, v: u64) -> Value {
    match bits {
        1 => Value::Bool(v & 1 == 1),
        8 => Value::Byte(v as u8),
        16 => Value::Word(v as u16),
        32 => Value::DWord(v as u32),
        _ => Value::LWord(v),
    }
}

fn write_input(h: &mut TestHarness, spec: &InputSpec, v: u64) {
    let addr = IoAddress::parse(&spec.addr).expect("generated input address parses");
    h.runtime_mut()
        .io_mut()
        .write(&addr, input_value(spec.bits, v))
        .expect("direct input write");
}

fn do_cycle(h: &mut TestHarness, sc: &Scenario, inputs: &[u64], dt_ns: i64) -> Vec<String> {
    for (i, spec) in sc.inputs.iter().enumerate() {
        write_input(h, spec, inputs.get(i).copied().unwrap_or(0));
    }
    h.advance_time(Duration::from_nanos(dt_ns));
    let r = h.cycle();
    r.errors.iter().map(|e| format!("{e:?}")).collect()
}

fn read_outputs(h: &TestHarness, sc: &Scenario) -> BTreeMap<String, String> {
    let mut m = BTreeMap::new();
    for a in &sc.outputs {
        let addr = IoAddress::parse(a).expect("generated output address parses");
        m.insert(a.clone(), format!("{:?}", h.runtime().io().read(&addr)));
    }
    m
}

fn read_access(h: &TestHarness, sc: &Scenario) -> BTreeMap<String, String> {
    let mut m = BTreeMap::new();
    for a in &sc.access {
        let v = h.runtime().read_access(a);
        m.insert(
            a.clone(),
            match v {
                Some(v) => dump_value(h.runtime(), &v, 0),
                None => "<unreadable>".into(),
            },
        );
    }
    m
}

/// A captured value: plain data, or the member values of an FB instance (only hand-written
/// reproducers declare FB instances RETAIN; the generator never does).
#[derive(Clone, Debug)]
enum Captured {
    Plain(Value),
    /// member values and the captured base-class/base-FB instance (parent chain)
    Instance(Vec<(String, Captured)>, Option<Box<Captured>>),
}

fn capture_value(rt: &Runtime, v: &Value, depth: usize) -> Captured {
    match v {
        Value::Instance(id) if depth < 8 => match rt.storage().get_instance(*id) {
            Some(inst) => Captured::Instance(
                inst.variables
                    .iter()
                    .map(|(k, v)| (k.to_string(), capture_value(rt, v, depth + 1)))
                    .collect(),
                inst.parent
                    .map(|p| Box::new(capture_value(rt, &Value::Instance(p), depth + 1))),
            ),
            None => Captured::Plain(v.clone()),
        },
        other => Captured::Plain(other.clone()),
    }
}

/// Current values of the retained variables (the actual `Value`s).
fn capture_retained(h: &TestHarness, sc: &Scenario) -> Vec<(String, Captured)> {
    let rt = h.runtime();
    let mut out = Vec::new();
    for key in &sc.retained {
        let v = if let Some(name) = key.strip_prefix("g:") {
            rt.storage().get_global(name)
        } else if let Some(rest) = key.strip_prefix("p:") {
            let (prog, var) = rest.split_once('.').expect("p:<prog>.<var>");
            match rt.storage().get_global(prog) {
                Some(Value::Instance(id)) => rt.storage().get_instance_var(*id, var),
                _ => None,
            }
        } else {
            None
        };
        if let Some(v) = v {
            out.push((key.clone(), capture_value(rt, v, 0)));
        }
    }
    out
}

fn inject_instance(
    h: &mut TestHarness,
    id: InstanceId,
    members: &[(String, Captured)],
    parent: &Option<Box<Captured>>,
) {
    if let Some(p) = parent {
        if let Captured::Instance(pm, pp) = p.as_ref() {
            let parent_id = h
                .runtime()
                .storage()
                .get_instance(id)
                .and_then(|inst| inst.parent);
            if let Some(parent_id) = parent_id {
                inject_instance(h, parent_id, pm, pp);
            }
        }
    }
    for (name, c) in members {
        match c {
            Captured::Plain(v) => {
                h.runtime_mut()
                    .storage_mut()
                    .set_instance_var(id, name.as_str(), v.clone());
            }
            Captured::Instance(inner, inner_parent) => {
                if let Some(Value::Instance(nested)) =
                    h.runtime().storage().get_instance_var(id, name).cloned()
                {
                    inject_instance(h, nested, inner, inner_parent);
                }
            }
        }
    }
}

/// The model of "retained = value before": write the captured values into a fresh runtime.
fn inject(h: &mut TestHarness, values: &[(String, Captured)]) {
    for (key, c) in values {
        if let Some(name) = key.strip_prefix("g:") {
            match c {
                Captured::Plain(v) => h.runtime_mut().storage_mut().set_global(name, v.clone()),
                Captured::Instance(members, parent) => {
                    if let Some(Value::Instance(id)) =
                        h.runtime().storage().get_global(name).cloned()
                    {
                        inject_instance(h, id, members, parent);
                    }
                }
            }
        } else if let Some(rest) = key.strip_prefix("p:") {
            let (prog, var) = rest.split_once('.').expect("p:<prog>.<var>");
            let id = match h.runtime().storage().get_global(prog) {
                Some(Value::Instance(id)) => *id,
                _ => continue,
            };
            match c {
                Captured::Plain(v) => {
                    h.runtime_mut()
                        .storage_mut()
                        .set_instance_var(id, var, v.clone());
                }
                Captured::Instance(members, parent) => {
                    if let Some(Value::Instance(nested)) =
                        h.runtime().storage().get_instance_var(id, var).cloned()
                    {
                        inject_instance(h, nested, members, parent);
                    }
                }
            }
        }
    }
}

static STORE_SEQ: AtomicU64 = AtomicU64::new(0);
static COMPILE_ERRORS: AtomicU64 = AtomicU64::new(0);

fn scratch_dir() -> std::path::PathBuf {
    let d = std::env::temp_dir().join(format!("tpv-c09-{}", std::process::id()));
    let _ = std::fs::create_dir_all(&d);
    d
}

fn store_path() -> std::path::PathBuf {
    scratch_dir().join(format!(
        "retain-{}.bin",
        STORE_SEQ.fetch_add(1, Ordering::Relaxed)
    ))
}

#[derive(Clone, Copy, PartialEq, Debug)]
enum Kind {
    Cold,
    Warm,
    Power,
    /// power loss without a save
    Loss,
}

struct Reference {
    h: TestHarness,
    kind: Kind,
    at_op: usize,
}

struct RestartFacts {
    ret_changed: bool,
    non_changed: bool,
    cycles_before: usize,
    exercised_after: bool,
}

#[derive(Clone, Copy)]
pub struct RunOpts {
    pub separate_process: bool,
}

/// Compare A against the reference after one op. `outputs` = the cycle completed on both.
fn compare(
    a: &TestHarness,
    r: &Reference,
    sc: &Scenario,
    what: &str,
    full: bool,
    outputs: bool,
) -> Result<(), String> {
    let ctx = |part: &str, d: String| {
        format!(
            "{what}: {part} differ from the {} after the {:?} restart at op {} - {d}",
            match r.kind {
                Kind::Cold => "freshly built runtime",
                Kind::Loss => "model (fresh runtime + the RETAIN/PERSISTENT values the store must hold since its last synchronisation)",
                _ => "model (fresh runtime + values the RETAIN/PERSISTENT variables had before)",
            },
            r.kind,
            r.at_op
        )
    };
    let da = dump(a.runtime());
    let dr = dump(r.h.runtime());
    if let Some(d) = first_diff(&da.vars, &dr.vars) {
        return Err(ctx("variables", d));
    }
    if full {
        if let Some(d) = first_diff(&da.meta, &dr.meta) {
            return Err(ctx("time/fault latch/task state", d));
        }
    }
    if let Some(d) = first_diff(&read_access(a, sc), &read_access(&r.h, sc)) {
        return Err(ctx("VAR_ACCESS reads", d));
    }
    if outputs {
        if let Some(d) = first_diff(&read_outputs(a, sc), &read_outputs(&r.h, sc)) {
            return Err(ctx("%Q outputs", d));
        }
    }
    Ok(())
}

pub fn run_scenario(sc: &Scenario, probe: &mut Probe, opts: RunOpts) -> Result<(), String> {
    for l in &sc.labels {
        probe.label(l.clone());
    }
    for e in &sc.excluded {
        probe.excluded(e.clone());
    }
    let mut a = match build(&sc.source) {
        Ok(h) => h,
        Err(e) => {
            COMPILE_ERRORS.fetch_add(1, Ordering::Relaxed);
            probe.label("gen=compile_error");
            probe.sample(json!({"compile_error": e, "source": sc.source}));
            return Ok(());
        }
    };
    let fresh = dump(a.runtime());
    for k in &sc.retained {
        if !fresh.vars.contains_key(k) {
            return Err(format!(
                "harness: retained key {k} does not exist in the storage dump"
            ));
        }
    }
    let retained: BTreeSet<&String> = sc.retained.iter().collect();
    let mut reference: Option<Reference> = None;
    let mut facts: Vec<RestartFacts> = Vec::new();
    let mut cycles = 0usize;
    let mut restarts = 0usize;
    let mut store_for_rwr: Option<std::path::PathBuf> = None;
    let mut to_remove: Vec<std::path::PathBuf> = Vec::new();
    // periodic save interval of the configured store in ms (negative = no periodic save)
    let mut cur_interval: i64 = -1;
    // What the store must contain (retained values) according to the property and the
    // specified synchronisation points: explicit save, the save of a power cycle, and
    // restart_with_retain (after which the store has to agree with the restarted memory:
    // initial values after Cold, the kept values after Warm). None = not determined, because
    // a periodic save may or may not have happened since (its timing is not specified).
    // An empty list = nothing stored yet.
    let mut store_known: Option<Vec<(String, Captured)>> = Some(Vec::new());
    let interval_arg = |ms: i64| {
        if ms < 0 {
            None
        } else {
            Some(Duration::from_millis(ms))
        }
    };

    if let Some(ms) = sc.store_interval_ms {
        let path = store_path();
        to_remove.push(path.clone());
        a.runtime_mut().set_retain_store(
            Some(Box::new(FileRetainStore::new(&path))),
            interval_arg(ms),
        );
        store_for_rwr = Some(path);
        cur_interval = ms;
    }

    let result = (|| -> Result<(), String> {
        for (i, op) in sc.ops.iter().enumerate() {
            match op {
                Op::Cycle { inputs, dt_ns } => {
                    let ea = do_cycle(&mut a, sc, inputs, *dt_ns);
                    cycles += 1;
                    if store_for_rwr.is_some() && cur_interval >= 0 {
                        store_known = None;
                    }
                    if ea.is_empty() {
                        probe.label("cycle=ok");
                    } else {
                        probe.label("cycle=fault");
                    }
                    if let Some(r) = reference.as_mut() {
                        let er = do_cycle(&mut r.h, sc, inputs, *dt_ns);
                        if ea != er {
                            return Err(format!(
                                "op {i} (cycle): errors {ea:?} differ from {er:?} of the reference built at the {:?} restart (op {})",
                                r.kind, r.at_op
                            ));
                        }
                        let ok = ea.is_empty();
                        compare(&a, r, sc, &format!("op {i} (cycle)"), true, ok)?;
                        if ok && inputs.iter().any(|v| *v != 0) {
                            if let Some(f) = facts.last_mut() {
                                f.exercised_after = true;
                            }
                        }
                    }
                }
                Op::Input { index, value } => {
                    if let Some(spec) = sc.inputs.get(*index) {
                        write_input(&mut a, spec, *value);
                        if let Some(r) = reference.as_mut() {
                            write_input(&mut r.h, spec, *value);
                        }
                    }
                }
                Op::Fault => {
                    let _ = a.runtime_mut().simulation_fault("c09 injected fault");
                    probe.label("op=fault");
                    // an external fault is not part of an input trace: the differential ends
                    reference = None;
                }
                Op::SaveStore => {
                    if store_for_rwr.is_none() {
                        let path = store_path();
                        to_remove.push(path.clone());
                        a.runtime_mut()
                            .set_retain_store(Some(Box::new(FileRetainStore::new(&path))), None);
                        store_for_rwr = Some(path);
                        cur_interval = -1;
                    }
                    a.runtime_mut()
                        .save_retain_store()
                        .map_err(|e| format!("op {i}: save_retain_store failed: {e:?}"))?;
                    store_known = Some(capture_retained(&a, sc));
                }
                Op::PowerLoss => {
                    restarts += 1;
                    let before = dump(a.runtime());
                    let ret_changed = retained
                        .iter()
                        .any(|k| before.vars.get(*k) != fresh.vars.get(*k));
                    let non_changed = before
                        .vars
                        .iter()
                        .any(|(k, v)| !retained.contains(k) && fresh.vars.get(k) != Some(v));
                    let mut b = build(&sc.source)
                        .map_err(|e| format!("harness: rebuild failed: {e}"))?;
                    if let Some(path) = &store_for_rwr {
                        b.runtime_mut().set_retain_store(
                            Some(Box::new(FileRetainStore::new(path))),
                            interval_arg(cur_interval),
                        );
                        b.runtime_mut()
                            .load_retain_store()
                            .map_err(|e| format!("op {i}: load_retain_store failed: {e:?}"))?;
                    }
                    a = b;
                    probe.label("restart=power_loss");
                    facts.push(RestartFacts {
                        ret_changed,
                        non_changed,
                        cycles_before: cycles,
                        exercised_after: false,
                    });
                    match &store_known {
                        Some(values) => {
                            probe.label(if values.is_empty() {
                                "power_loss=store_empty"
                            } else {
                                "power_loss=store_known"
                            });
                            let mut r = build(&sc.source)
                                .map_err(|e| format!("harness: rebuild failed: {e}"))?;
                            inject(&mut r, values);
                            let r = Reference {
                                h: r,
                                kind: Kind::Loss,
                                at_op: i,
                            };
                            compare(&a, &r, sc, &format!("op {i} (PowerLoss)"), true, false)?;
                            reference = Some(r);
                        }
                        None => {
                            // a periodic save may have intervened: only what the store cannot
                            // influence is demanded
                            probe.label("power_loss=store_undetermined");
                            let now = dump(a.runtime());
                            for (k, v) in &fresh.vars {
                                if !retained.contains(k) && now.vars.get(k) != Some(v) {
                                    return Err(format!(
                                        "op {i} (PowerLoss): non-retained {k} = {:?} after loading the store, declared initial value {v}",
                                        now.vars.get(k)
                                    ));
                                }
                            }
                            reference = None;
                        }
                    }
                }
                Op::Restart { .. } | Op::PowerCycle | Op::RestartWithRetain { .. } => {
                    restarts += 1;
                    let before = dump(a.runtime());
                    let captured = capture_retained(&a, sc);
                    let ret_changed = retained
                        .iter()
                        .any(|k| before.vars.get(*k) != fresh.vars.get(*k));
                    let non_changed = before
                        .vars
                        .iter()
                        .any(|(k, v)| !retained.contains(k) && fresh.vars.get(k) != Some(v));
                    if a.runtime().faulted() {
                        probe.label("restart=from_faulted");
                    }
                    let kind = match op {
                        Op::Restart { cold: true } | Op::RestartWithRetain { cold: true } => {
                            Kind::Cold
                        }
                        Op::Restart { cold: false } | Op::RestartWithRetain { cold: false } => {
                            Kind::Warm
                        }
                        _ => Kind::Power,
                    };
                    match op {
                        Op::Restart { cold } => {
                            let mode = if *cold { RestartMode::Cold } else { RestartMode::Warm };
                            a.restart(mode)
                                .map_err(|e| format!("op {i}: restart({mode:?}) failed: {e:?}"))?;
                            probe.label(if *cold { "restart=cold" } else { "restart=warm" });
                        }
                        Op::RestartWithRetain { cold } => {
                            let mode = if *cold { RestartMode::Cold } else { RestartMode::Warm };
                            if store_for_rwr.is_none() {
                                let path = store_path();
                                to_remove.push(path.clone());
                                a.runtime_mut().set_retain_store(
                                    Some(Box::new(FileRetainStore::new(&path))),
                                    None,
                                );
                                store_for_rwr = Some(path);
                                cur_interval = -1;
                            }
                            a.restart_with_retain(mode).map_err(|e| {
                                format!("op {i}: restart_with_retain({mode:?}) failed: {e:?}")
                            })?;
                            probe.label("restart=with_retain");
                        }
                        _ => {
                            let path = match &store_for_rwr {
                                Some(p) => p.clone(),
                                None => {
                                    let path = store_path();
                                    to_remove.push(path.clone());
                                    a.runtime_mut().set_retain_store(
                                        Some(Box::new(FileRetainStore::new(&path))),
                                        None,
                                    );
                                    cur_interval = -1;
                                    path
                                }
                            };
                            // no mark_retain_dirty(): an explicit save must persist the
                            // live values whatever the dirty flag says
                            a.runtime_mut()
                                .save_retain_store()
                                .map_err(|e| format!("op {i}: save_retain_store failed: {e:?}"))?;
                            store_known = Some(captured.clone());
                            let mut b = build(&sc.source)
                                .map_err(|e| format!("harness: rebuild failed: {e}"))?;
                            b.runtime_mut().set_retain_store(
                                Some(Box::new(FileRetainStore::new(&path))),
                                interval_arg(cur_interval),
                            );
                            b.runtime_mut()
                                .load_retain_store()
                                .map_err(|e| format!("op {i}: load_retain_store failed: {e:?}"))?;
                            if opts.separate_process {
                                let theirs = load_in_child(&sc.source, &path)?;
                                let mine = dump(b.runtime());
                                if let Some(d) = first_diff(&theirs.vars, &mine.vars) {
                                    return Err(format!(
                                        "op {i}: power cycle across a process boundary differs from the in-process one - {d}"
                                    ));
                                }
                                probe.label("power=separate_process");
                            }
                            a = b;
                            store_for_rwr = Some(path);
                            probe.label("restart=power_cycle");
                        }
                    }
                    let mut r = build(&sc.source)
                        .map_err(|e| format!("harness: rebuild failed: {e}"))?;
                    if kind != Kind::Cold {
                        inject(&mut r, &captured);
                        let dr = dump(r.runtime());
                        for (k, _) in &captured {
                            if dr.vars.get(k) != before.vars.get(k) {
                                return Err(format!("harness: injection of {k} into the model failed"));
                            }
                        }
                    }
                    if matches!(op, Op::RestartWithRetain { .. }) {
                        // the store has to agree with the restarted memory (the model runtime)
                        store_known = Some(capture_retained(&r, sc));
                    }
                    let r = Reference {
                        h: r,
                        kind,
                        at_op: i,
                    };
                    let what = format!("op {i} ({op:?})");
                    // immediately after the restart: variables always; meta state for Cold
                    compare(&a, &r, sc, &what, kind == Kind::Cold, false)?;
                    facts.push(RestartFacts {
                        ret_changed,
                        non_changed,
                        cycles_before: cycles,
                        exercised_after: false,
                    });
                    if ret_changed {
                        probe.label("restart_after=retained_changed");
                    }
                    if non_changed {
                        probe.label("restart_after=non_retained_changed");
                    }
                    let meta_equal = dump(a.runtime()).meta == dump(r.h.runtime()).meta;
                    if kind == Kind::Cold || meta_equal {
                        reference = Some(r);
                    } else {
                        // not demanded by the property text for warm restarts: no continuation
                        probe.label("warm_meta_differs=continuation_skipped");
                        reference = None;
                    }
                }
            }
        }
        Ok(())
    })();
    for p in to_remove {
        let _ = std::fs::remove_file(p);
    }
    result?;

    probe.label(format!("restarts={}", restarts.min(4)));
    let has_binding = !sc.outputs.is_empty() || !sc.access.is_empty();
    if has_binding
        && facts
            .iter()
            .any(|f| f.ret_changed && f.non_changed && f.cycles_before >= 1 && f.exercised_after)
    {
        let mut key = sc.source.as_bytes().to_vec();
        key.extend_from_slice(serde_json::to_string(&sc.ops).unwrap_or_default().as_bytes());
        probe.nontrivial(&key);
        probe.sample(json!({
            "source_head": sc.source.chars().take(600).collect::<String>(),
            "retained": sc.retained,
            "ops": sc.ops.iter().map(|o| match o {
                Op::Cycle{..} => "Cycle".to_string(),
                other => format!("{other:?}"),
            }).collect::<Vec<_>>(),
        }));
    }
    Ok(())
}

// ---------------------------------------------------------------------------------------
// separate-process load (thorough tier)

fn load_in_child(source: &str, retain_file: &std::path::Path) -> Result<Dump, String> {
    let src_path = scratch_dir().join(format!(
        "src-{}.st",
        STORE_SEQ.fetch_add(1, Ordering::Relaxed)
    ));
    std::fs::write(&src_path, source).map_err(|e| format!("harness: write source: {e}"))?;
    let exe = std::env::current_exe().map_err(|e| format!("harness: current_exe: {e}"))?;
    let out = std::process::Command::new(exe)
        .arg("c09-load")
        .arg(&src_path)
        .arg(retain_file)
        .stdin(std::process::Stdio::null())
        .output()
        .map_err(|e| format!("harness: spawn c09-load: {e}"))?;
    let _ = std::fs::remove_file(&src_path);
    if !out.status.success() {
        return Err(format!(
            "power cycle: loading the retain file in a new process failed ({:?}): {}",
            out.status,
            String::from_utf8_lossy(&out.stderr)
        ));
    }
    serde_json::from_slice(&out.stdout).map_err(|e| format!("harness: child dump: {e}"))
}

/// Helper subcommands (child processes of this check); None = not mine.
pub fn helper(args: &[String]) -> Option<i32> {
    match args.first().map(|s| s.as_str()) {
        Some("c09-load") if args.len() >= 3 => {
            let src = match std::fs::read_to_string(&args[1]) {
                Ok(s) => s,
                Err(e) => {
                    eprintln!("read {}: {e}", args[1]);
                    return Some(2);
                }
            };
            let mut h = match build(&src) {
                Ok(h) => h,
                Err(e) => {
                    eprintln!("compile: {e}");
                    return Some(2);
                }
            };
            h.runtime_mut()
                .set_retain_store(Some(Box::new(FileRetainStore::new(&args[2]))), None);
            if let Err(e) = h.runtime_mut().load_retain_store() {
                eprintln!("load_retain_store: {e:?}");
                return Some(1);
            }
            println!("{}", serde_json::to_string(&dump(h.runtime())).unwrap());
            Some(0)
        }
        Some("c09-gen") => {
            // print generated scenarios (debug aid): c09-gen <seed> <count>
            let seed: u64 = args.get(1).and_then(|s| s.parse().ok()).unwrap_or(1);
            let count: usize = args.get(2).and_then(|s| s.parse().ok()).unwrap_or(1);
            let mut x = seed.wrapping_mul(0x9E37_79B9_7F4A_7C15) | 1;
            for _ in 0..count {
                let mut data = Vec::new();
                for _ in 0..400 {
                    x ^= x << 13;
                    x ^= x >> 7;
                    x ^= x << 17;
                    data.push((x >> 16) as u32);
                }
                let sc = gen::scenario(&Tape { data }, gen::Open::all_open());
                println!("{}", sc.source);
                println!("(* retained: {:?} *)", sc.retained);
                println!("(* inputs: {:?} outputs: {:?} access: {:?} *)", sc.inputs, sc.outputs, sc.access);
                println!("(* labels: {:?} excluded: {:?} *)", sc.labels, sc.excluded);
                println!("(* ops: {:?} *)", sc.ops);
                let mut p = Probe::default();
                let res = run_scenario(&sc, &mut p, RunOpts { separate_process: false });
                println!("(* result: {res:?} labels={:?} nontrivial={} *)", p.labels, p.nontrivial.is_some());
            }
            Some(0)
        }
        Some("c09-try") if args.len() >= 2 => {
            // debug aid: compile a file, run cycles / restarts given as c|warm|cold, print dumps
            let src = std::fs::read_to_string(&args[1]).ok()?;
            let mut h = match build(&src) {
                Ok(h) => h,
                Err(e) => {
                    println!("COMPILE ERROR: {e}");
                    return Some(1);
                }
            };
            for op in &args[2..] {
                match op.as_str() {
                    "c" => {
                        h.advance_time(Duration::from_millis(10));
                        println!("cycle errors={:?}", h.cycle().errors);
                    }
                    "warm" => println!("warm {:?}", h.restart(RestartMode::Warm)),
                    "cold" => println!("cold {:?}", h.restart(RestartMode::Cold)),
                    _ => {}
                }
                for (k, v) in dump(h.runtime()).vars {
                    println!("  {k} = {v}");
                }
            }
            Some(0)
        }
        Some("c09-scenario") if args.len() >= 2 => {
            // wrap a .st file + ops json into a replay file skeleton: c09-scenario <file.st>
            let src = std::fs::read_to_string(&args[1]).ok()?;
            let sc = Scenario {
                source: src,
                retained: vec![],
                inputs: vec![],
                outputs: vec![],
                access: vec![],
                ops: vec![],
                store_interval_ms: None,
                labels: vec![],
                excluded: vec![],
            };
            println!("{}", serde_json::to_string_pretty(&sc).unwrap());
            Some(0)
        }
        _ => None,
    }
}

// ---------------------------------------------------------------------------------------

fn run(ctx: &mut RunCtx) {
    let tier = ctx.tier;
    let open = gen::Open {
        retain_fb: ctx.is_open(K_RETAIN_FB),
        varconfig_init: ctx.is_open(K_VARCONFIG),
        mem_binding: ctx.is_open(K_MEM),
        rwr: ctx.is_open(K_RWR),
    };
    let opts = RunOpts {
        separate_process: false,
    };
    let strat = tape_strategy(420).prop_map(move |t| gen::scenario(&t, open));
    ctx.search(
        "history",
        strat,
        tier.pick(2_000, 60_000),
        move |sc: &Scenario, p| run_scenario(sc, p, opts),
    );
    if tier == Tier::Thorough {
        // the power cycle really crosses a process boundary
        let strat = tape_strategy(420).prop_map(move |t| gen::scenario_with_power(&t, open));
        let opts = RunOpts {
            separate_process: true,
        };
        ctx.search("history_process", strat, 3_000, move |sc: &Scenario, p| {
            run_scenario(sc, p, opts)
        });
    }
    let ce = COMPILE_ERRORS.load(Ordering::Relaxed);
    if ce > 0 && ctx.only_replay.is_none() {
        ctx.inconclusive(format!(
            "{ce} generated program(s) were rejected by the compiler (generator out of date?)"
        ));
    }
    let _ = std::fs::remove_dir_all(scratch_dir());
}
