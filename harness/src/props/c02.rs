//! C02 - the interpreter agrees with an independent IEC reference semantics for the ST core.
//!
//! Generator: `stgen` (typed ST programs as a function of a choice tape) in its strict
//! dial. Oracle: `stref` (reference evaluator written from IEC 61131-3 and docs/specs).
//! After EVERY cycle all variables of all program instances, nested FB instances and
//! globals are compared (value and type), together with the fault verdict (class and cycle).

use std::collections::BTreeMap;
use std::sync::atomic::{AtomicU64, Ordering};
use std::sync::Mutex;

use proptest::prelude::*;
use proptest::strategy::ValueTree;
use serde::{Deserialize, Serialize};
use serde_json::json;

use crate::engine::tape::{tape_strategy, Tape};
use crate::engine::{catch, Probe, PropertyInfo, RunCtx};
use crate::stgen::ast::*;
use crate::stgen::print::{print_program, PrintOpts};
use crate::stgen::rt::{snapshot, Real, RealFault};
use crate::stgen::{generate, GenConfig};
use crate::stref::{flatten_state, CycleEnd, Machine, RefConfig};

#[path = "c02/grid.rs"]
mod grid;
#[path = "c02/handmade.rs"]
mod handmade;

pub fn info() -> PropertyInfo {
    PropertyInfo {
        id: "C02",
        level: "exploration",
        rule: "cases = stgen programs in the strict dial (typed literals, exact-type assignments/arguments; BOOL, 8 integer types, REAL/LREAL, TIME comparisons, enums, 1-2-dim arrays, structs, FUNCTIONs with IN/OUT/IN_OUT, FUNCTION_BLOCK instances with state, IF/CASE/FOR/WHILE/REPEAT/EXIT/CONTINUE/RETURN, <= 25 statements per POU) x input traces of 1-5 cycles; every case is run on the real runtime (TestHarness) and on the reference evaluator stref, all variables and the fault verdict are compared after every cycle; non-trivial = the reference executed >= 3 statements and (>= 1 variable differs from its initial value or a fault was raised); distinct by SHA-256 of (source, trace)",
        assumptions: &[
            "reference semantics: IEC 61131-3 Ed.3 + docs/specs/05,06,10 (see harness/src/stref/mod.rs); a FOR increment that leaves the control type and a non-finite REAL/LREAL result are Overflow faults",
            "not asserted (standard and docs silent): value of a FOR control variable after the loop; order of evaluating an assignment target's subscripts vs. its right-hand side (both fault classes accepted); state of VAR_IN_OUT/VAR_OUTPUT targets of calls abandoned by a fault; order of effects between sibling call arguments (nested effectful calls are not generated)",
            "strict dial: implicit conversions at assignment/binding are outside the explored domain while finding F8 is open",
            "harness built with overflow-checks and debug-assertions (the repository's dev/test profile)",
        ],
        workers_quick: 8,
        workers_thorough: 16,
        address_space_limit: 0,
        watchdog_quick_s: 900,
        watchdog_thorough_s: 7200,
        run,
    }
}

/// A case: the two tapes are the ground truth; `program`/`trace`/`source` are derived from
/// them when the case is generated and stored so that a replay file stays meaningful (and
/// replayable from the AST) even if the generator changes later.
#[derive(Clone, Debug, Serialize, Deserialize)]
pub struct Case {
    pub prog_tape: Tape,
    pub trace_tape: Tape,
    /// bit 0: full parentheses, bit 1: `&` for AND.
    pub print_bits: u8,
    /// "strict" | "implicit"
    #[serde(default)]
    pub dial: String,
    #[serde(default)]
    pub program: Option<Program>,
    #[serde(default)]
    pub trace: Option<Trace>,
    /// Printed source (informational).
    #[serde(default)]
    pub source: String,
}

pub fn config_for(dial: &str) -> GenConfig {
    let mut cfg = if dial == "implicit" {
        GenConfig::implicit_core()
    } else {
        GenConfig::strict_core()
    };
    // C02 wants the paired extremes (min / -1, -min, max + 1, ...) with real probability;
    // the switches default to off for the other users of stgen.
    cfg.boundary_pairs = true;
    cfg.trace_boundary_bursts = true;
    cfg
}

fn opts_of(bits: u8) -> PrintOpts {
    PrintOpts {
        full_parens: bits & 1 != 0,
        ampersand: bits & 2 != 0,
    }
}

pub fn materialize(mut c: Case) -> Case {
    let cfg = config_for(&c.dial);
    let g = generate(&c.prog_tape, &c.trace_tape, &cfg);
    c.source = print_program(&g.program, opts_of(c.print_bits)).source;
    c.program = Some(g.program);
    c.trace = Some(g.trace);
    c
}

static REJECTED: AtomicU64 = AtomicU64::new(0);
static RAN: AtomicU64 = AtomicU64::new(0);
static INTERNAL: Mutex<Vec<String>> = Mutex::new(Vec::new());
static TIMEOUTS: AtomicU64 = AtomicU64::new(0);

/// Paths of variables that are never compared (FOR control variables).
fn skip_paths(prog: &Program) -> Vec<String> {
    fn walk(prog: &Program, prefix: &str, pou: &Pou, out: &mut Vec<String>, depth: u32) {
        if depth > 6 {
            return;
        }
        for v in &pou.vars {
            if v.role == Role::ForControl {
                out.push(format!("{prefix}.{}", v.name));
            }
            if let Ty::Fb(f) = &v.ty {
                if let Some(p) = prog.pou(f) {
                    walk(prog, &format!("{prefix}.{}", v.name), p, out, depth + 1);
                }
            }
        }
    }
    let mut out = Vec::new();
    for (inst, pname) in &prog.instances {
        if let Some(p) = prog.pou(pname) {
            walk(prog, inst, p, &mut out, 0);
        }
    }
    out
}

fn path_under(path: &str, prefix: &str) -> bool {
    path == prefix
        || (path.starts_with(prefix)
            && matches!(path.as_bytes().get(prefix.len()), Some(b'.') | Some(b'[')))
}

fn trace_text(prog: &Program, trace: &Trace) -> String {
    let mut s = String::new();
    for (k, c) in trace.iter().enumerate() {
        let w: Vec<String> = c
            .writes
            .iter()
            .map(|w| {
                let inst = if w.instance.is_empty() {
                    "G"
                } else {
                    w.instance.as_str()
                };
                format!(
                    "{}.{} := {}",
                    inst,
                    w.var,
                    crate::stgen::print::literal_text(&w.value, prog, true)
                )
            })
            .collect();
        s.push_str(&format!(
            "  cycle {}: dt={}ns writes [{}]\n",
            k + 1,
            c.dt_ns,
            w.join("; ")
        ));
    }
    s
}

pub struct Verdict {
    pub labels: Vec<String>,
    pub nontrivial: bool,
    pub steps: u64,
}

/// Compare the real runtime with the reference on one program + trace.
pub fn compare(prog: &Program, trace: &Trace, opts: PrintOpts) -> Result<Verdict, String> {
    let printed = print_program(prog, opts);
    let src = &printed.source;
    let mut labels: Vec<String> = Vec::new();
    let fail = |what: String| -> String {
        format!(
            "{what}\n--- trace\n{}--- source\n{}",
            trace_text(prog, trace),
            src
        )
    };

    // ---- reference first (also decides whether the case is inside the step budget)
    let mut m = match Machine::new(
        prog,
        RefConfig {
            trace: false,
            ..RefConfig::default()
        },
    ) {
        Ok(m) => m,
        Err(e) => {
            INTERNAL
                .lock()
                .unwrap()
                .push(format!("reference cannot initialise: {e}"));
            return Ok(Verdict {
                labels: vec!["internal_error".into()],
                nontrivial: false,
                steps: 0,
            });
        }
    };
    let initial = flatten_state(&m.state());
    let mut ref_states = Vec::new();
    let mut ref_ends = Vec::new();
    let mut steps = 0u64;
    for c in trace {
        for w in &c.writes {
            if let Err(e) = m.write_input(w) {
                INTERNAL
                    .lock()
                    .unwrap()
                    .push(format!("reference input write: {e}"));
                return Ok(Verdict {
                    labels: vec!["internal_error".into()],
                    nontrivial: false,
                    steps: 0,
                });
            }
        }
        let out = m.cycle();
        steps += out.steps;
        if let Some(msg) = m.internal_error.take() {
            INTERNAL.lock().unwrap().push(format!("{msg}\n{src}"));
            return Ok(Verdict {
                labels: vec!["internal_error".into()],
                nontrivial: false,
                steps,
            });
        }
        if out.end == CycleEnd::Budget {
            return Ok(Verdict {
                labels: vec!["outside_step_budget".into()],
                nontrivial: false,
                steps,
            });
        }
        let faulted = matches!(out.end, CycleEnd::Fault(_));
        ref_states.push(flatten_state(&m.state()));
        ref_ends.push(out.end);
        if faulted {
            break;
        }
    }

    // ---- the real runtime
    let mut real = match catch(|| Real::compile(src)) {
        Ok(Ok(r)) => r,
        Ok(Err(e)) => {
            REJECTED.fetch_add(1, Ordering::Relaxed);
            let first = e
                .lines()
                .next()
                .unwrap_or("")
                .chars()
                .take(70)
                .collect::<String>();
            if let Ok(dir) = std::env::var("C02_DEBUG_DIR") {
                let name = format!(
                    "{dir}/rej-{:016x}.st",
                    crate::engine::digest64(src.as_bytes())
                );
                let _ = std::fs::write(name, format!("(* {e} *)\n{src}"));
            }
            return Ok(Verdict {
                labels: vec![format!("rejected:{first}")],
                nontrivial: false,
                steps,
            });
        }
        Err(p) => return Err(fail(format!("the compiler panicked: {p}"))),
    };
    RAN.fetch_add(1, Ordering::Relaxed);
    let skip = skip_paths(prog);
    let mut changed = false;
    let mut any_fault = false;
    for (k, c) in trace.iter().enumerate() {
        if k >= ref_ends.len() {
            break;
        }
        real.apply(prog, c)
            .map_err(|e| fail(format!("cannot apply inputs of cycle {}: {e}", k + 1)))?;
        let rf = match catch(|| real.cycle(5_000)) {
            Ok(f) => f,
            Err(p) => {
                let expect = match &ref_ends[k] {
                    CycleEnd::Fault(f) => {
                        format!("a {} fault at statement {}", f.kinds[0].name(), f.stmt)
                    }
                    _ => "a normal cycle".to_string(),
                };
                return Err(fail(format!(
                    "cycle {}: the runtime panicked ({p}); the reference expects {expect}",
                    k + 1
                )));
            }
        };
        if let Some(RealFault::Other(o)) = &rf {
            if o.contains("ExecutionTimeout") {
                TIMEOUTS.fetch_add(1, Ordering::Relaxed);
                return Ok(Verdict {
                    labels: vec!["runtime_deadline_hit".into()],
                    nontrivial: false,
                    steps,
                });
            }
        }
        let mut unsettled: Vec<String> = Vec::new();
        match (&ref_ends[k], &rf) {
            (CycleEnd::Ok, None) => {}
            (CycleEnd::Fault(f), Some(RealFault::Kind(kind))) if f.kinds.contains(kind) => {
                any_fault = true;
                labels.push(format!("fault={}", kind.name()));
                if f.depth > 0 {
                    labels.push("fault_inside_call".into());
                }
                unsettled = f.unsettled.clone();
            }
            (CycleEnd::Fault(f), other) => {
                let want: Vec<&str> = f.kinds.iter().map(|k| k.name()).collect();
                return Err(fail(format!(
                    "cycle {}: the reference raises {} at statement {} (call depth {}), the runtime {}",
                    k + 1,
                    want.join(" or "),
                    f.stmt,
                    f.depth,
                    match other {
                        None => "completes the cycle without a fault".to_string(),
                        Some(RealFault::Kind(k)) => format!("raises {}", k.name()),
                        Some(RealFault::Other(o)) => format!("raises {o}"),
                    }
                )));
            }
            (_, Some(f)) => {
                return Err(fail(format!(
                    "cycle {}: the runtime raises {} but the reference completes the cycle",
                    k + 1,
                    match f {
                        RealFault::Kind(k) => k.name().to_string(),
                        RealFault::Other(o) => o.clone(),
                    }
                )));
            }
            (CycleEnd::Budget, None) => {}
        }
        if real.frames_left() != 0 && rf.is_none() {
            return Err(fail(format!(
                "cycle {}: {} call frame(s) left on the runtime's stack",
                k + 1,
                real.frames_left()
            )));
        }
        // ---- all variables
        let got = snapshot(&real.harness, prog);
        let want = &ref_states[k];
        let mut diffs = Vec::new();
        for (path, wv) in want {
            if skip.iter().any(|s| path_under(path, s))
                || unsettled.iter().any(|s| path_under(path, s))
            {
                continue;
            }
            if initial.get(path) != Some(wv) {
                changed = true;
            }
            match got.get(path) {
                Some(gv) if gv == wv => {}
                Some(gv) => diffs.push(format!(
                    "{path}: runtime {} , reference {}",
                    gv.show(),
                    wv.show()
                )),
                None => diffs.push(format!(
                    "{path}: missing in the runtime's storage, reference {}",
                    wv.show()
                )),
            }
        }
        if !diffs.is_empty() {
            let n = diffs.len();
            diffs.truncate(6);
            return Err(fail(format!(
                "after cycle {}{}: {} variable(s) differ\n  {}",
                k + 1,
                if any_fault { " (faulted)" } else { "" },
                n,
                diffs.join("\n  ")
            )));
        }
        if any_fault {
            break;
        }
    }
    for (l, _) in m.coverage.iter() {
        labels.push(l.clone());
    }
    labels.push(format!("cycles={}", ref_ends.len()));
    if !any_fault {
        labels.push("fault=none".into());
    }
    Ok(Verdict {
        labels,
        nontrivial: steps >= 3 && (changed || any_fault),
        steps,
    })
}

fn check_case(case: &Case, probe: &mut Probe) -> Result<(), String> {
    let owned;
    let (prog, trace) = match (&case.program, &case.trace) {
        (Some(p), Some(t)) => (p, t),
        _ => {
            owned = materialize(case.clone());
            (
                owned.program.as_ref().unwrap(),
                owned.trace.as_ref().unwrap(),
            )
        }
    };
    let cfg = config_for(&case.dial);
    // what the generator steered around (recomputed from the tape; cheap)
    if case.program.is_some() && !case.prog_tape.data.is_empty() {
        for (what, n) in generate(&case.prog_tape, &case.trace_tape, &cfg).excluded {
            for _ in 0..n.min(3) {
                probe.excluded(what.clone());
            }
        }
    }
    let v = compare(prog, trace, opts_of(case.print_bits))?;
    for l in &v.labels {
        probe.label(l.clone());
    }
    probe.label(format!(
        "dial={}",
        if case.dial.is_empty() {
            "strict"
        } else {
            case.dial.as_str()
        }
    ));
    if case.dial != "implicit" {
        probe.excluded("F8-implicit-conversion-at-assignment-or-binding (strict dial: every case)");
    }
    if v.nontrivial {
        let mut key = case.source.as_bytes().to_vec();
        key.extend_from_slice(serde_json::to_string(trace).unwrap_or_default().as_bytes());
        probe.nontrivial(&key);
        if v.steps > 20 {
            probe.sample(json!({"source": case.source, "cycles": trace.len(), "statements_executed": v.steps}));
        }
    }
    Ok(())
}

pub fn case_strategy(dial: &'static str) -> impl Strategy<Value = Case> {
    (tape_strategy(700), tape_strategy(60), 0u8..8).prop_map(move |(p, t, bits)| {
        // print options: mostly minimal parentheses
        let print_bits = match bits {
            0 => 1,
            1 => 2,
            2 => 3,
            _ => 0,
        };
        materialize(Case {
            prog_tape: p,
            trace_tape: t,
            print_bits,
            dial: dial.to_string(),
            program: None,
            trace: None,
            source: String::new(),
        })
    })
}

/// Helper subcommands (child processes of this check); None = not mine.
pub fn helper(args: &[String]) -> Option<i32> {
    match args.first().map(|s| s.as_str()) {
        Some("c02-probe") => {
            let path = args.get(1)?;
            let cycles: usize = args.get(2).and_then(|s| s.parse().ok()).unwrap_or(1);
            let src = std::fs::read_to_string(path).ok()?;
            let prog = Program {
                types: vec![],
                pous: vec![],
                globals: vec![],
                instances: vec![],
            };
            match Real::compile(&src) {
                Err(e) => {
                    println!("COMPILE ERROR: {e}");
                    Some(1)
                }
                Ok(mut real) => {
                    for c in 0..cycles {
                        let f = catch(|| real.cycle(2000));
                        println!("cycle {c}: fault={f:?}");
                        for (k, v) in snapshot(&real.harness, &prog) {
                            println!("   {k} = {}", v.show());
                        }
                    }
                    Some(0)
                }
            }
        }
        Some("c02-gen") => {
            // tpv c02-gen <seed> [n] [dial]: print generated programs (generator debugging)
            let seed: u64 = args.get(1).and_then(|s| s.parse().ok()).unwrap_or(1);
            let n: usize = args.get(2).and_then(|s| s.parse().ok()).unwrap_or(1);
            let dial: &'static str = if args.get(3).map(|s| s.as_str()) == Some("implicit") {
                "implicit"
            } else {
                "strict"
            };
            let mut runner = proptest::test_runner::TestRunner::new_with_rng(
                proptest::test_runner::Config::default(),
                proptest::test_runner::TestRng::from_seed(
                    proptest::test_runner::RngAlgorithm::ChaCha,
                    &{
                        let mut s = [0u8; 32];
                        s[..8].copy_from_slice(&seed.to_le_bytes());
                        s
                    },
                ),
            );
            let strat = case_strategy(dial);
            for _ in 0..n {
                let c = strat.new_tree(&mut runner).ok()?.current();
                println!(
                    "(* ---- program: {} tape words ---- *)",
                    c.prog_tape.data.len()
                );
                println!("{}", c.source);
                if let (Some(p), Some(t)) = (&c.program, &c.trace) {
                    println!("(* trace\n{}*)", trace_text(p, t));
                    let mut probe = Probe::default();
                    match check_case(&c, &mut probe) {
                        Ok(()) => println!("(* verdict: ok; labels {:?} *)", probe.labels),
                        Err(e) => println!(
                            "(* verdict: FAIL {} *)",
                            e.lines().take(8).collect::<Vec<_>>().join("\n")
                        ),
                    }
                }
            }
            for m in INTERNAL.lock().unwrap().iter() {
                println!("(* INTERNAL: {m} *)");
            }
            Some(0)
        }
        Some("c02-mkreplays") => Some(handmade::write_replays(args.get(1).map(|s| s.as_str()))),
        _ => None,
    }
}

fn run(ctx: &mut RunCtx) {
    let tier = ctx.tier;
    ctx.search(
        "strict",
        case_strategy("strict"),
        tier.pick(12_000, 400_000),
        check_case,
    );
    // Enumerated boundary grid (deterministic, independent of VERIF_SEED): replay tier for
    // saved grid cases first, then this worker's share of the grid.
    ctx.search(
        "grid",
        Just(grid::all_cases().swap_remove(0)),
        0,
        grid::check,
    );
    if ctx.only_replay.is_none() {
        let cases = grid::all_cases();
        let n = ctx.nworkers.max(1);
        for (i, c) in cases.iter().enumerate() {
            if i % n != ctx.worker {
                continue;
            }
            let j = serde_json::to_value(c).unwrap_or(serde_json::Value::Null);
            ctx.enumerated("grid", &j, |p| grid::check(c, p));
        }
    }

    // The implicit dial (untyped literals, widening assignments) is F8 territory: while that
    // finding is open only its reproducer is replayed (-> KNOWN-FINDING line); once it is
    // fixed the dial joins the search.
    let f8_open = ctx.is_open("F8-assignment-keeps-expression-type");
    let implicit_cases = if f8_open { 0 } else { tier.pick(6_000, 200_000) };
    ctx.search("implicit", case_strategy("implicit"), implicit_cases, check_case);

    let ran = RAN.load(Ordering::Relaxed);
    let rejected = REJECTED.load(Ordering::Relaxed);
    let internal = INTERNAL.lock().unwrap().clone();
    if !internal.is_empty() {
        ctx.inconclusive(format!(
            "{} case(s) hit an inconsistency inside the generator/reference (not a verdict about the runtime); first: {}",
            internal.len(),
            internal[0].lines().take(3).collect::<Vec<_>>().join(" | ")
        ));
    }
    if ctx.only_replay.is_none() && rejected * 50 > (ran + rejected).max(1) {
        ctx.inconclusive(format!(
            "{rejected} of {} generated programs were rejected by the compiler (> 2 %): the generator no longer matches the accepted language",
            ran + rejected
        ));
    }
    let t = TIMEOUTS.load(Ordering::Relaxed);
    if t > 0 {
        ctx.note(format!(
            "{t} case(s) hit the 5 s execution deadline of the runtime and were not judged"
        ));
    }
    let _ = BTreeMap::<u8, u8>::new();
}
