//! C18 - the control endpoint executes a request only with a sufficient role.
//!
//! Fixture: the real `ControlServer` on a unix socket in front of a constructed
//! `ControlState` (runtime built by `TestHarness`, `ResourceControl::stub` whose receiver
//! records every command, `PairingStore` on an injected clock with tokens of every role plus
//! one that runs out and one that is revoked, scratch project directory).
//! Domain: request types = every string literal in `match` position of
//! `control/handlers/*.rs`, `required_role_for_control_request` and `is_debug_request`, read
//! from the sources under `engine::repo_root()` at run time, plus garbled/unknown types;
//! parameters from a per-type schema (valid, missing, wrong-typed, huge, nested);
//! credentials; endpoint configurations; malformed lines. The (type x credential x config)
//! grid is enumerated first, then requests are generated.
//! Oracle: a state probe before and after every request and the assertions (1)-(6) of
//! DESIGN section 4 C18.

use std::cell::RefCell;
use std::collections::{BTreeMap, BTreeSet};
use std::sync::Mutex;

use proptest::prelude::*;
use serde_json::{json, Value as J};

use crate::engine::tape::{tape_strategy, Reader};
use crate::engine::{Probe, PropertyInfo, RunCtx};

#[path = "c18/domain.rs"]
mod domain;
#[path = "c18/fixture.rs"]
mod fixture;
#[path = "c18/guard.rs"]
mod guard;

static MOAT: std::sync::OnceLock<guard::Moat> = std::sync::OnceLock::new();

pub(crate) fn moat() -> Option<&'static guard::Moat> {
    MOAT.get()
}

/// Every JSON string literal of a request line (keys and values, duplicates included; works
/// on lines that do not parse as a whole).
fn string_literals_of(line: &[u8]) -> Vec<String> {
    let mut out = Vec::new();
    let mut i = 0;
    while i < line.len() {
        if line[i] == b'"' {
            let start = i;
            i += 1;
            while i < line.len() && line[i] != b'"' {
                if line[i] == b'\\' {
                    i += 1;
                }
                i += 1;
            }
            let end = (i + 1).min(line.len());
            let lit = &line[start..end];
            match serde_json::from_slice::<String>(lit) {
                Ok(s) => out.push(s),
                Err(_) => out.push(String::from_utf8_lossy(&lit[1..]).trim_end_matches('"').to_string()),
            }
            i = end;
        } else {
            i += 1;
        }
    }
    out
}

/// String guard: may this line be handed to an arbitrary (possibly unconfined) endpoint?
fn line_is_safe(line: &[u8], fixture_dir: &std::path::Path) -> Result<(), String> {
    // a line that is not JSON never gets as far as a handler (the request parser is
    // serde_json, not code under test)
    if serde_json::from_slice::<J>(line).is_err() {
        return Ok(());
    }
    let fx = fixture_dir.display().to_string();
    for lit in string_literals_of(line) {
        let template = match lit.strip_prefix(&fx) {
            Some(rest) => format!("{{S}}{rest}"),
            None => lit.clone(),
        };
        guard::check_template(&template).map_err(|why| format!("{}: {why}", cut(&lit, 120)))?;
    }
    Ok(())
}

use domain::{Cred, Extracted, GroupCase, Level, LineCase};
use fixture::{Cfg, Fixture, ProbeState, Reply, Template, ADMIN_TOKEN, CANARIES};

pub fn info() -> PropertyInfo {
    PropertyInfo {
        id: "C18",
        level: "exploration",
        rule: "case = one request template (type, params, config) swept over all credentials through the real unix-socket ControlServer, or one malformed line; non-trivial = template of a request type known to the dispatcher (sent with every credential below admin) or a malformed line; distinct by (type, params, config) / line bytes",
        assumptions: &[
            "refusals are recognised by the endpoint's reply wording: 'unauthorized', 'forbidden: requires role <r>', 'debug disabled', 'invalid request: ...'",
            "without a configured auth token the endpoint trusts its local socket: the property makes no statement about credentials that are not live pairing tokens in that configuration",
            "volatile bookkeeping is not a state change: HMI trend/alarm cache refresh by hmi.*.get, debugger variable handles (debug.scopes), drained stop-event queue (debug.stops), pruning of run-out pairing tokens",
            "debugger-private state (mode, steps, queued writes, forced values) and the resource stop flag are read from the derived Debug rendering of DebugControl/ResourceControl",
            "unix-socket transport only (TCP shares handle_request_line); one connection per fixture",
        ],
        workers_quick: 8,
        workers_thorough: 16,
        address_space_limit: 0,
        watchdog_quick_s: 3_600,
        watchdog_thorough_s: 28_800,
        run,
    }
}

/// Helper subcommands (child processes of this check); None = not mine.
pub fn helper(_args: &[String]) -> Option<i32> {
    None
}

// ---------------------------------------------------------------------------------------

static PANICS: Mutex<Vec<String>> = Mutex::new(Vec::new());

/// Keep the engine's hook, additionally remember panics of server threads (they die
/// silently otherwise and show up only as a closed connection).
fn install_panic_recorder() {
    let prev = std::panic::take_hook();
    std::panic::set_hook(Box::new(move |info| {
        let name = std::thread::current().name().unwrap_or("").to_string();
        let loc = info
            .location()
            .map(|l| format!("{}:{}", l.file(), l.line()))
            .unwrap_or_default();
        let msg = if let Some(s) = info.payload().downcast_ref::<&str>() {
            (*s).to_string()
        } else if let Some(s) = info.payload().downcast_ref::<String>() {
            s.clone()
        } else {
            "<non-string panic>".to_string()
        };
        if let Ok(mut g) = PANICS.lock() {
            if g.len() < 32 {
                g.push(format!("thread '{name}' panicked at {loc}: {msg}"));
            }
        }
        prev(info);
    }));
}

fn take_panics() -> Vec<String> {
    PANICS.lock().map(|mut g| std::mem::take(&mut *g)).unwrap_or_default()
}

struct Env {
    tpl: Template,
    ex: Extracted,
    debug_class: BTreeSet<String>,
    pool: RefCell<BTreeMap<String, Fixture>>,
    seq: RefCell<u64>,
    infra: RefCell<Vec<String>>,
    notes: RefCell<BTreeSet<String>>,
    next_id: RefCell<u64>,
    rebuilds: RefCell<u64>,
    graveyard: RefCell<Vec<std::thread::JoinHandle<()>>>,
    /// role the endpoint names when a viewer asks for `config.set {key: value}` (canonical key)
    cfg_req: BTreeMap<String, Level>,
    unsafe_skipped: RefCell<u64>,
    moat_top: std::path::PathBuf,
    in_aftermath: std::cell::Cell<bool>,
}

impl Env {
    fn infra(&self, s: String) {
        let mut v = self.infra.borrow_mut();
        if v.len() < 20 {
            v.push(s);
        }
    }

    fn retire(&self, fx: Fixture) {
        if let Some(m) = moat() {
            // an escaped write has been reported by the case that saw it; do not let it
            // taint the cases that follow
            m.purge(Some(&fx.dir));
        }
        let (handle, problem) = fx.teardown();
        if let Some(e) = problem {
            self.notes.borrow_mut().insert(format!("teardown: {e}"));
        }
        let mut g = self.graveyard.borrow_mut();
        if let Some(h) = handle {
            g.push(h);
        }
        // join whatever has ended in the meantime
        let mut i = 0;
        while i < g.len() {
            if g[i].is_finished() {
                let _ = g.swap_remove(i).join();
            } else {
                i += 1;
            }
        }
        if g.len() > 64 {
            // server threads are not going away: stop and wait rather than pile them up
            let h = g.remove(0);
            let t0 = std::time::Instant::now();
            while !h.is_finished() && t0.elapsed().as_secs() < 5 {
                std::thread::sleep(std::time::Duration::from_millis(1));
            }
            if h.is_finished() {
                let _ = h.join();
            } else {
                self.notes
                    .borrow_mut()
                    .insert("teardown: server threads of a retired fixture did not exit within 5 s".into());
            }
        }
    }

    /// Fixture for `cfg`, fresh if the pooled one was used up.
    fn take(&self, cfg: Cfg, need_fresh: bool) -> Result<Fixture, String> {
        let key = cfg.key();
        if let Some(fx) = self.pool.borrow_mut().remove(&key) {
            if !need_fresh {
                return Ok(fx);
            }
            self.retire(fx);
        }
        let seq = {
            let mut s = self.seq.borrow_mut();
            *s += 1;
            *s
        };
        *self.rebuilds.borrow_mut() += 1;
        let fx = Fixture::new(cfg, &self.tpl, seq)?;
        if !fx.debug_layout_ok {
            let e = "DebugControl/ResourceControl Debug rendering no longer has the expected fields; probe cannot see debugger state".to_string();
            self.retire(fx);
            return Err(e);
        }
        if !fx.has_debug_snapshot {
            self.notes
                .borrow_mut()
                .insert("fixture: DebugControl holds no snapshot after the set-up cycle".into());
        }
        if fx.alarm_id.is_empty() {
            self.notes
                .borrow_mut()
                .insert("fixture: no HMI alarm raised at set-up (hmi.alarm.ack has no visible effect)".into());
        }
        Ok(fx)
    }

    fn put_back(&self, fx: Fixture, dirty: bool) {
        if dirty {
            self.retire(fx);
        } else {
            self.pool.borrow_mut().insert(fx.cfg.key(), fx);
        }
    }

    fn shutdown(&self) {
        let all: Vec<Fixture> = std::mem::take(&mut *self.pool.borrow_mut()).into_values().collect();
        for fx in all {
            self.retire(fx);
        }
        let t0 = std::time::Instant::now();
        let mut g = self.graveyard.borrow_mut();
        while !g.is_empty() && t0.elapsed().as_secs() < 10 {
            let mut i = 0;
            while i < g.len() {
                if g[i].is_finished() {
                    let _ = g.swap_remove(i).join();
                } else {
                    i += 1;
                }
            }
            std::thread::sleep(std::time::Duration::from_millis(1));
        }
        if !g.is_empty() {
            self.notes
                .borrow_mut()
                .insert(format!("teardown: {} fixture thread groups still alive at the end of the run", g.len()));
        }
        // leave the moat before it is removed
        let _ = std::env::set_current_dir("/");
        if self.moat_top.components().count() >= 3 {
            let _ = std::fs::remove_dir_all(&self.moat_top);
        }
    }

    fn fresh_id(&self) -> u64 {
        let mut n = self.next_id.borrow_mut();
        *n += 1;
        *n
    }

    fn is_debug_class(&self, ty: &str) -> bool {
        self.debug_class.contains(ty)
    }

    fn known_to_dispatcher(&self, ty: &str) -> bool {
        self.ex.dispatch.contains_key(ty)
    }
}

fn cut(s: &str, n: usize) -> String {
    if s.len() <= n {
        return s.to_string();
    }
    let mut end = n;
    while !s.is_char_boundary(end) {
        end -= 1;
    }
    format!("{}...[{} bytes]", &s[..end], s.len())
}

fn fill(v: &J, fx: &Fixture, tpl: &Template) -> J {
    match v {
        // "$NAME#n" = the placeholder's value in spelling n (domain::respell)
        J::String(s) if s.starts_with('$') && s.contains('#') => {
            let (name, how) = s.split_once('#').unwrap();
            let filled = fill(&J::String(name.to_string()), fx, tpl);
            match (filled, how.parse::<usize>()) {
                (J::String(t), Ok(h)) => J::String(domain::respell(&t, h)),
                (other, _) => other,
            }
        }
        // "{S}..." = absolute path below the fixture directory (inside the scratch moat)
        J::String(s) if s.starts_with("{S}") => J::String(format!("{}{}", fx.dir.display(), &s[3..])),
        J::String(s) => match s.as_str() {
            "$CODE" => json!(fx.pending_code),
            "$ALARM" => json!(fx.alarm_id),
            "$FILEID" => json!(fx.file_id),
            "$BPLINE" => json!(fx.bp_line_free),
            "$PAIRID" => json!(tpl.tokens.id_engineer),
            "$OTHERMODE" => json!(if fx.cfg.mode_debug { "production" } else { "debug" }),
            "$OTHERDEBUG" => json!(!fx.cfg.debug_enabled),
            _ => v.clone(),
        },
        J::Array(a) => J::Array(a.iter().map(|x| fill(x, fx, tpl)).collect()),
        J::Object(m) => J::Object(m.iter().map(|(k, x)| (k.clone(), fill(x, fx, tpl))).collect()),
        _ => v.clone(),
    }
}

fn auth_member(cred: Cred, tpl: &Template) -> Option<J> {
    let t = &tpl.tokens;
    Some(match cred {
        Cred::None => return None,
        Cred::Wrong => json!("not-a-token-5c1d"),
        Cred::Empty => json!(""),
        Cred::Admin => json!(ADMIN_TOKEN),
        Cred::Viewer => json!(t.viewer),
        Cred::Operator => json!(t.operator),
        Cred::Engineer => json!(t.engineer),
        Cred::Expired => json!(t.expired),
        Cred::Revoked => json!(t.revoked),
        Cred::AdminPadded => json!(format!(" {ADMIN_TOKEN} ")),
        Cred::AdminUpper => json!(ADMIN_TOKEN.to_ascii_uppercase()),
        Cred::AdminPrefix => json!(&ADMIN_TOKEN[..ADMIN_TOKEN.len() - 1]),
        Cred::EngineerPadded => json!(format!("{} ", t.engineer)),
        Cred::AuthNull => J::Null,
        Cred::AuthNumber => json!(7),
        Cred::AuthArrayOfAdmin => json!([ADMIN_TOKEN]),
    })
}

#[derive(Clone, Debug, PartialEq, Eq)]
enum Class {
    Unauthorized,
    Forbidden(Option<Level>),
    DebugDisabled,
    Invalid,
    Unsupported,
    HandlerError,
    Ok,
}

impl Class {
    fn name(&self) -> &'static str {
        match self {
            Class::Unauthorized => "unauthorized",
            Class::Forbidden(_) => "forbidden",
            Class::DebugDisabled => "debug_disabled",
            Class::Invalid => "invalid_request",
            Class::Unsupported => "unsupported",
            Class::HandlerError => "handler_error",
            Class::Ok => "ok",
        }
    }
    /// the request got past authentication and the role check
    fn passed_role_gate(&self) -> bool {
        matches!(
            self,
            Class::DebugDisabled | Class::Unsupported | Class::HandlerError | Class::Ok
        )
    }
}

struct Parsed {
    ok: bool,
    has_result: bool,
    error: String,
    id: Option<u64>,
    class: Class,
}

fn parse_reply(raw: &str) -> Result<Parsed, String> {
    let v: J = serde_json::from_str(raw).map_err(|e| format!("reply is not JSON ({e})"))?;
    let obj = v.as_object().ok_or("reply is not a JSON object")?;
    let ok = obj
        .get("ok")
        .and_then(J::as_bool)
        .ok_or("reply has no boolean 'ok'")?;
    let has_result = obj.get("result").map(|r| !r.is_null()).unwrap_or(false);
    let error = obj.get("error").and_then(J::as_str).unwrap_or("").to_string();
    let id = obj.get("id").and_then(J::as_u64);
    let class = if ok {
        Class::Ok
    } else if error == "unauthorized" {
        Class::Unauthorized
    } else if let Some(rest) = error.strip_prefix("forbidden") {
        Class::Forbidden(rest.rsplit("requires role ").next().and_then(Level::parse))
    } else if error == "debug disabled" {
        Class::DebugDisabled
    } else if error.starts_with("invalid request") {
        Class::Invalid
    } else if error == "unsupported request" {
        Class::Unsupported
    } else {
        Class::HandlerError
    };
    Ok(Parsed {
        ok,
        has_result,
        error,
        id,
        class,
    })
}

struct Outcome {
    cred: Cred,
    level: Option<Level>,
    class: Class,
    ok: bool,
    changed: Vec<&'static str>,
}

fn leak_check(line: &str, reply: &str, tpl: &Template) -> Option<String> {
    let t = &tpl.tokens;
    let secrets = [
        ADMIN_TOKEN,
        t.viewer.as_str(),
        t.operator.as_str(),
        t.engineer.as_str(),
        t.expired.as_str(),
        t.revoked.as_str(),
    ];
    for c in CANARIES.iter().copied().chain(secrets.iter().copied()) {
        if reply.contains(c) && !line.contains(c) {
            return Some(c.to_string());
        }
    }
    None
}

/// One request through the socket with the probe around it.
fn one_request(
    env: &Env,
    fx: &mut Fixture,
    line: &[u8],
) -> Result<(ProbeState, Reply, ProbeState), String> {
    if let Err(why) = line_is_safe(line, &fx.dir) {
        // never hand such a string to a handler that might join it onto a path
        *env.unsafe_skipped.borrow_mut() += 1;
        env.notes
            .borrow_mut()
            .insert(format!("string guard: a request was not sent ({why})"));
        let p = fx.probe();
        return Ok((p.clone(), Reply::Timeout, p));
    }
    let before = fx.probe_with(false);
    fx.set_request_clock();
    let mut reply = fx.exchange(line);
    if let Reply::Timeout = reply {
        env.infra("no reply within 180 s on an open connection".into());
    }
    let after = fx.probe();
    if fx.fence_failed.get() {
        env.infra("resource command record could not be synchronised within 600 s".into());
        // the probes around this request are not trustworthy: drop the case
        reply = Reply::Timeout;
    }
    Ok((before, reply, after))
}

fn describe(case: &GroupCase, cred: Cred) -> String {
    format!(
        "[{}] type {:?} params {} extra {} credential {:?}",
        case.cfg.key(),
        case.ty,
        cut(&case.params.as_ref().map(|p| p.to_string()).unwrap_or_else(|| "-".into()), 300),
        case.extra.as_ref().map(|p| p.to_string()).unwrap_or_else(|| "-".into()),
        cred
    )
}

/// `check_group_once`, with one confirmation run when only the *handler outcome* (not the role
/// decision) differed between two credentials: several handlers wait up to 250 ms for the
/// resource thread, so on a badly overloaded machine one credential of a sweep can see
/// "snapshot unavailable" where the others are served. A difference that does not reproduce
/// on fresh fixtures is not reported.
fn check_group(env: &Env, case: &GroupCase, probe: &mut Probe) -> Result<(), String> {
    match check_group_once(env, case, probe) {
        Err(e) if e.starts_with("(3) ") && (e.contains(" is served but ") || e.contains(" takes effect for ")) => {
            let mut again = Probe::default();
            match check_group_once(env, case, &mut again) {
                Ok(()) => {
                    probe.label("timing_retry_cleared");
                    Ok(())
                }
                Err(e2) => Err(e2),
            }
        }
        r => r,
    }
}

fn check_group_once(env: &Env, case: &GroupCase, probe: &mut Probe) -> Result<(), String> {
    let cfg = case.cfg;
    let ty = case.ty.as_str();
    let known = env.known_to_dispatcher(ty);
    let in_sources = known || env.ex.required_table.contains(ty) || env.ex.debug_gate.contains(ty);
    let type_class = if known {
        "dispatcher"
    } else if in_sources {
        "table_only"
    } else if case.ty == case.schema_of {
        "unclassified"
    } else if domain::UNKNOWN_TYPES.contains(&ty) {
        "unknown"
    } else {
        "garbled"
    };
    probe.label(format!("type={type_class}"));
    probe.label(format!("shape={}", case.shape));
    probe.label(format!("cfg={}", cfg.key()));
    let mutating = domain::is_mutating(ty);
    let debug_class = env.is_debug_class(ty);

    let mut outcomes: Vec<Outcome> = Vec::new();
    let mut fx = match env.take(cfg, false) {
        Ok(fx) => fx,
        Err(e) => {
            env.infra(format!("fixture: {e}"));
            return Ok(());
        }
    };
    for &cred in &case.creds {
        // the run-out token is pruned by the first request that consults the pairing
        // store; give that credential a store that still holds it
        if cred == Cred::Expired && fx.expiry_consumed {
            env.put_back(fx, true);
            fx = match env.take(cfg, true) {
                Ok(fx) => fx,
                Err(e) => {
                    env.infra(format!("fixture: {e}"));
                    return Ok(());
                }
            };
        }
        let id = env.fresh_id();
        let mut obj = serde_json::Map::new();
        if let Some(J::Object(extra)) = &case.extra {
            for (k, v) in extra {
                obj.insert(k.clone(), v.clone());
            }
        }
        obj.insert("id".into(), json!(id));
        obj.insert("type".into(), json!(case.ty));
        if let Some(p) = &case.params {
            obj.insert("params".into(), fill(p, &fx, &env.tpl));
        }
        if let Some(a) = auth_member(cred, &env.tpl) {
            obj.insert("auth".into(), a);
        }
        let line = match &case.raw_params {
            None => serde_json::to_string(&J::Object(obj)).unwrap(),
            Some(raw) => {
                // textual request: `raw` follows `"params":` verbatim
                let mut t = format!(
                    "{{\"id\":{id},\"type\":{},\"params\":{raw}",
                    serde_json::to_string(&case.ty).unwrap()
                );
                if let Some(a) = auth_member(cred, &env.tpl) {
                    t.push_str(&format!(",\"auth\":{a}"));
                }
                t.push('}');
                t
            }
        };
        let malformed_auth = matches!(cred, Cred::AuthNumber | Cred::AuthArrayOfAdmin);
        let lvl = domain::level_with(cred, cfg.token_set, cfg.pairing_present());
        let what = describe(case, cred);

        let _ = take_panics();
        let (before, reply, after) = one_request(env, &mut fx, line.as_bytes())?;
        if domain::touches_pairing_store(cred, cfg.token_set) {
            fx.expiry_consumed = true;
        }
        let changed = before.diff(&after);
        let raw = match reply {
            Reply::Line(l) => l,
            Reply::Closed => {
                let panics = take_panics();
                let am = aftermath(env, &mut fx, true, "a request that killed its connection");
                env.put_back(fx, true);
                return Err(format!(
                    "(6) no reply: the server closed the connection. {what}\n  server panics: {panics:?}{}",
                    match am {
                        Err(e) => format!("\n  AFTERMATH: {e}"),
                        Ok(()) => "\n  aftermath: authorisation invariants still hold on a fresh connection".to_string(),
                    }
                ));
            }
            Reply::Timeout => {
                env.put_back(fx, true);
                return Ok(());
            }
        };
        let fail = |fx: Fixture, msg: String| -> Result<(), String> {
            env.put_back(fx, true);
            Err(format!("{msg}\n  {what}\n  reply: {}\n  changed: {changed:?}", cut(&raw, 400)))
        };
        let parsed = match parse_reply(&raw) {
            Ok(p) => p,
            Err(e) => return fail(fx, format!("(6) {e}")),
        };
        let class = parsed.class.clone();
        if !parsed.ok && parsed.has_result {
            return fail(fx, "an error reply carries a result".into());
        }
        if malformed_auth {
            if parsed.ok {
                return fail(fx, "(6) a request whose auth member is not a string was served".into());
            }
        } else if parsed.id != Some(id) {
            return fail(
                fx,
                format!("(6) reply id {:?} does not answer request id {id}: replies out of step", parsed.id),
            );
        }
        // moat oracle: whoever asks, nothing may appear outside project_root
        if !after.part("outside_project").is_empty() {
            let found = after.part("outside_project").to_string();
            return fail(fx, format!("handler wrote outside project_root: {found}"));
        }
        // (1) token configured, no valid credential: error, nothing changes, nothing revealed
        if lvl == Some(Level::Unauth) {
            if parsed.ok || parsed.has_result {
                return fail(fx, "(1) request without a valid credential was served although an auth token is configured".into());
            }
            if !changed.is_empty() {
                return fail(fx, "(1) request without a valid credential changed the endpoint's state".into());
            }
            if let Some(c) = leak_check(&line, &raw, &env.tpl) {
                return fail(fx, format!("(1) reply to a request without a valid credential reveals runtime data ({c:?})"));
            }
        }
        // dynamic rule: nothing at or below viewer changes state
        if matches!(lvl, Some(Level::Unauth) | Some(Level::Viewer)) && !changed.is_empty() {
            return fail(fx, format!("(2) a request sent with {} changed the endpoint's state", if lvl == Some(Level::Viewer) { "the viewer role" } else { "no valid credential" }));
        }
        // a pairing code handed out is a change of pairing data the probe cannot see
        if matches!(lvl, Some(Level::Unauth) | Some(Level::Viewer)) && parsed.ok {
            let issued = serde_json::from_str::<J>(&raw)
                .ok()
                .map(|v| v["result"]["code"].is_string() && !v["result"]["expires_at"].is_null())
                .unwrap_or(false);
            if issued {
                return fail(fx, "(2) a pairing code was issued to a request at or below the viewer role".into());
            }
        }
        // (4) by effect: whatever the request spelt, a configuration key that was effectively
        // applied needs the role the endpoint itself demands for that key in canonical spelling
        if let Some(l) = lvl {
            for part in &changed {
                if let Some(key) = part.strip_prefix("cfg:") {
                    let need = env.cfg_req.get(key).copied().unwrap_or(Level::Engineer);
                    if l < need {
                        return fail(fx, format!(
                            "(4) the setting {key:?} was changed by a credential of role {l:?}; the endpoint requires {need:?} for config.set of {key:?} in its canonical spelling"
                        ));
                    }
                }
            }
        }
        // (2) mutating request types need more than viewer
        if mutating && lvl == Some(Level::Viewer) {
            match &class {
                Class::Forbidden(Some(x)) if *x > Level::Viewer => {}
                Class::Forbidden(None) | Class::Unauthorized => {}
                Class::DebugDisabled if !cfg.debug_enabled && debug_class => {}
                _ => {
                    return fail(fx, format!("(2) mutating request type {ty:?} is not refused for the viewer role (outcome {})", class.name()));
                }
            }
        }
        // (5) debug-class requests while debugging is disabled
        if !cfg.debug_enabled {
            if debug_class
                && !matches!(
                    class,
                    Class::Unauthorized | Class::Forbidden(_) | Class::DebugDisabled | Class::Invalid
                )
            {
                return fail(fx, format!("(5) debug-class request {ty:?} is not refused while debugging is disabled (outcome {})", class.name()));
            }
            if changed.iter().any(|p| *p == "debug_exec" || *p == "breakpoints") {
                return fail(fx, "(5) debugger execution state/breakpoints changed while debugging is disabled".into());
            }
        }
        // refusals carry no data
        if matches!(class, Class::Unauthorized | Class::Forbidden(_) | Class::DebugDisabled)
            && lvl.is_some()
        {
            if let Some(c) = leak_check(&line, &raw, &env.tpl) {
                return fail(fx, format!("a refusal reveals runtime data ({c:?})"));
            }
        }
        if let Some(extra) = fx.stray_line() {
            return fail(fx, format!("(6) more than one reply line for one request: {}", cut(&extra, 200)));
        }
        probe.label(format!(
            "outcome={}{}/{}",
            class.name(),
            if changed.is_empty() { "" } else { "+changed" },
            match lvl {
                Some(l) => format!("{l:?}").to_ascii_lowercase(),
                None => "local_trust".into(),
            }
        ));
        if !changed.is_empty() && in_sources {
            probe.label(format!("effect={ty}:{}", changed.join("+")));
        }
        let dirty = !changed.is_empty() || (parsed.ok && !domain::is_read_only(ty));
        let _ = &parsed.error;
        outcomes.push(Outcome {
            cred,
            level: lvl,
            class,
            ok: parsed.ok,
            changed,
        });
        if dirty {
            env.put_back(fx, true);
            fx = match env.take(cfg, true) {
                Ok(fx) => fx,
                Err(e) => {
                    env.infra(format!("fixture: {e}"));
                    return Ok(());
                }
            };
        }
    }
    // (6) the connection is still usable and in step
    {
        let id = env.fresh_id();
        let ping = json!({"id": id, "type": "health", "auth": ADMIN_TOKEN}).to_string();
        match fx.exchange(ping.as_bytes()) {
            Reply::Line(l) => {
                let ok = parse_reply(&l).map(|p| p.id == Some(id) && p.ok).unwrap_or(false);
                if !ok {
                    env.put_back(fx, true);
                    return Err(format!(
                        "(6) connection out of step after the sweep of {:?} [{}]: follow-up health request answered by {}",
                        case.ty,
                        cfg.key(),
                        cut(&l, 200)
                    ));
                }
            }
            Reply::Closed => {
                env.put_back(fx, true);
                return Err(format!(
                    "(6) connection unusable after the sweep of {:?} [{}]",
                    case.ty,
                    cfg.key()
                ));
            }
            Reply::Timeout => {
                env.infra("follow-up health request timed out".into());
                env.put_back(fx, true);
                return Ok(());
            }
        }
        if matches!(case.shape.as_str(), "wrong_typed" | "huge" | "nested" | "non_object" | "null") {
            probe.label("aftermath=after_robustness_case");
            if let Err(e) = aftermath(env, &mut fx, false, "a robustness case") {
                env.put_back(fx, true);
                if e == "__timeout" {
                    return Ok(());
                }
                return Err(format!("{e}\n  the case before: [{}] type {:?} params {}", cfg.key(), case.ty,
                    cut(&case.params.as_ref().map(|p| p.to_string()).unwrap_or_else(|| "-".into()), 300)));
            }
        }
        env.put_back(fx, false);
    }

    // cross-credential assertions (3), (4)
    let graded: Vec<&Outcome> = outcomes.iter().filter(|o| o.level.is_some()).collect();
    let summary = || -> String {
        outcomes
            .iter()
            .map(|o| {
                format!(
                    "{:?}->{}{}",
                    o.cred,
                    o.class.name(),
                    if o.changed.is_empty() { String::new() } else { format!("{:?}", o.changed) }
                )
            })
            .collect::<Vec<_>>()
            .join(", ")
    };
    let ctx_text = || -> String {
        format!(
            "[{}] type {:?} params {}\n  outcomes: {}",
            cfg.key(),
            case.ty,
            cut(&case.params.as_ref().map(|p| p.to_string()).unwrap_or_else(|| "-".into()), 300),
            summary()
        )
    };
    let mut named: Option<Level> = None;
    for o in &graded {
        if let Class::Forbidden(Some(x)) = o.class {
            match named {
                None => named = Some(x),
                Some(y) if y != x => {
                    return Err(format!(
                        "(4) refusals of one request name different required roles ({y:?} and {x:?})\n  {}",
                        ctx_text()
                    ));
                }
                _ => {}
            }
        }
    }
    for a in &graded {
        let la = a.level.unwrap();
        if let Some(x) = named {
            if matches!(a.class, Class::Forbidden(_)) && la >= x {
                return Err(format!(
                    "(4) {:?} has role {la:?} >= the named requirement {x:?} but is refused as forbidden\n  {}",
                    a.cred,
                    ctx_text()
                ));
            }
            if la != Level::Unauth && la < x && (a.class.passed_role_gate() || !a.changed.is_empty()) {
                return Err(format!(
                    "(4) {:?} (role {la:?}) was served although refusals name {x:?} as the required role\n  {}",
                    a.cred,
                    ctx_text()
                ));
            }
        }
        for b in &graded {
            let lb = b.level.unwrap();
            if lb < la {
                continue;
            }
            // (3) monotone in the role
            if a.class.passed_role_gate() && !b.class.passed_role_gate() && b.class != Class::Invalid {
                return Err(format!(
                    "(3) {:?} (standing {la:?}) gets past authentication and role check but {:?} (standing {lb:?}, not lower) is refused\n  {}",
                    a.cred,
                    b.cred,
                    ctx_text()
                ));
            }
            if a.ok && !b.ok && b.class != Class::Invalid {
                return Err(format!(
                    "(3) {:?} (role {la:?}) is served but {:?} (role {lb:?}) is not\n  {}",
                    a.cred,
                    b.cred,
                    ctx_text()
                ));
            }
            if !a.changed.is_empty() && b.changed.is_empty() && b.class != Class::Invalid {
                return Err(format!(
                    "(3) the request takes effect for {:?} (role {la:?}) but not for {:?} (role {lb:?})\n  {}",
                    a.cred,
                    b.cred,
                    ctx_text()
                ));
            }
        }
    }
    if mutating {
        if let Some(x) = named {
            if x <= Level::Viewer {
                return Err(format!("(2) mutating request type names {x:?} as required role\n  {}", ctx_text()));
            }
        }
    }
    if known {
        let mut key = format!("{}|{}|", case.ty, cfg.key()).into_bytes();
        key.extend_from_slice(case.params.as_ref().map(|p| p.to_string()).unwrap_or_default().as_bytes());
        probe.nontrivial(&key);
        probe.sample(json!({
            "config": cfg.key(), "type": case.ty, "shape": case.shape,
            "params": cut(&case.params.as_ref().map(|p| p.to_string()).unwrap_or_default(), 160),
            "outcomes": summary(),
        }));
    }
    Ok(())
}

/// Independent reading of a request line: is it a request at all?
fn is_wellformed_request(bytes: &[u8]) -> bool {
    let Ok(text) = std::str::from_utf8(bytes) else {
        return false;
    };
    let Ok(v) = serde_json::from_str::<J>(text) else {
        return false;
    };
    let Some(o) = v.as_object() else {
        return false;
    };
    o.get("id").map(|i| i.is_u64()).unwrap_or(false)
        && o.get("type").map(|t| t.is_string()).unwrap_or(false)
        && o.get("auth").map(|a| a.is_string() || a.is_null()).unwrap_or(true)
}

fn check_line(env: &Env, case: &LineCase, probe: &mut Probe) -> Result<(), String> {
    if case.bytes.contains(&b'\n') {
        probe.label("line=contains_newline_skipped");
        return Ok(());
    }
    probe.label(format!("line={}", case.class));
    let wellformed = is_wellformed_request(&case.bytes);
    if wellformed {
        probe.label("line=accidentally_wellformed");
    }
    let mut fx = match env.take(case.cfg, false) {
        Ok(fx) => fx,
        Err(e) => {
            env.infra(format!("fixture: {e}"));
            return Ok(());
        }
    };
    let shown = cut(&String::from_utf8_lossy(&case.bytes), 300);
    let _ = take_panics();
    let (before, reply, after) = one_request(env, &mut fx, &case.bytes)?;
    let changed = before.diff(&after);
    let raw = match reply {
        Reply::Line(l) => l,
        Reply::Closed => {
            let panics = take_panics();
            let am = aftermath(env, &mut fx, true, "a line that killed its connection");
            env.put_back(fx, true);
            return Err(format!(
                "(6) malformed line gets no reply: the server closed the connection [{}] class {} line {shown:?}\n  server panics: {panics:?}{}",
                case.cfg.key(),
                case.class,
                match am {
                    Err(e) => format!("\n  AFTERMATH: {e}"),
                    Ok(()) => String::new(),
                }
            ));
        }
        Reply::Timeout => {
            env.put_back(fx, true);
            return Ok(());
        }
    };
    let fail = |fx: Fixture, msg: String| -> Result<(), String> {
        env.put_back(fx, true);
        Err(format!(
            "{msg} [{}] class {} line {shown:?}\n  reply: {}\n  changed: {changed:?}",
            case.cfg.key(),
            case.class,
            cut(&raw, 300)
        ))
    };
    let parsed = match parse_reply(&raw) {
        Ok(p) => p,
        Err(e) => return fail(fx, format!("(6) {e}")),
    };
    if !after.part("outside_project").is_empty() {
        let found = after.part("outside_project").to_string();
        return fail(fx, format!("handler wrote outside project_root: {found}"));
    }
    if !wellformed {
        if parsed.ok || parsed.has_result {
            return fail(fx, "(6) malformed line was served instead of answered with an error".into());
        }
        if !changed.is_empty() {
            return fail(fx, "(6) malformed line changed the endpoint's state".into());
        }
    } else if case.cfg.token_set && !String::from_utf8_lossy(&case.bytes).contains(ADMIN_TOKEN) {
        if parsed.ok || !changed.is_empty() {
            return fail(fx, "(1) line without credential was served although an auth token is configured".into());
        }
    }
    if let Some(extra) = fx.stray_line() {
        return fail(fx, format!("(6) more than one reply line: {}", cut(&extra, 200)));
    }
    // the connection stays usable
    let id = env.fresh_id();
    let ping = json!({"id": id, "type": "health", "auth": ADMIN_TOKEN}).to_string();
    match fx.exchange(ping.as_bytes()) {
        Reply::Line(l) => {
            if !parse_reply(&l).map(|p| p.id == Some(id) && p.ok).unwrap_or(false) {
                return fail(fx, format!("(6) connection out of step after the malformed line: follow-up answered by {}", cut(&l, 200)));
            }
        }
        Reply::Closed => {
            return fail(fx, "(6) connection unusable after the malformed line".into());
        }
        Reply::Timeout => {
            env.infra("follow-up health request timed out".into());
            env.put_back(fx, true);
            return Ok(());
        }
    }
    let dirty = !changed.is_empty() || parsed.ok;
    // (every third line, chosen by its content; every line already gets the follow-up request)
    if !dirty && crate::engine::digest64(&case.bytes) % 3 == 0 {
        probe.label("aftermath=after_line");
        if let Err(e) = aftermath(env, &mut fx, false, "a malformed line") {
            if e == "__timeout" {
                env.put_back(fx, true);
                return Ok(());
            }
            return fail(fx, e);
        }
    }
    env.put_back(fx, dirty);
    if !wellformed {
        let mut key = case.cfg.key().into_bytes();
        key.extend_from_slice(&case.bytes);
        probe.nontrivial(&key);
        if case.bytes.len() < 200 {
            probe.sample(json!({"config": case.cfg.key(), "class": case.class, "line": shown, "reply": cut(&raw, 120)}));
        }
    }
    Ok(())
}

/// A short history on one connection: an administrative request changes who is
/// authorised, the following requests must be judged against the new state.
#[derive(Clone, Debug, serde::Serialize, serde::Deserialize)]
struct HistoryCase {
    cfg: Cfg,
    kind: u8,
}

const HISTORY_KINDS: u8 = 6;

struct Sent {
    parsed: Parsed,
    changed: Vec<&'static str>,
    raw: String,
}

fn send(
    env: &Env,
    fx: &mut Fixture,
    ty: &str,
    params: Option<J>,
    auth: Option<&str>,
) -> Result<Sent, String> {
    let id = env.fresh_id();
    let mut obj = serde_json::Map::new();
    obj.insert("id".into(), json!(id));
    obj.insert("type".into(), json!(ty));
    if let Some(p) = params {
        obj.insert("params".into(), p);
    }
    if let Some(a) = auth {
        obj.insert("auth".into(), json!(a));
    }
    let line = J::Object(obj).to_string();
    let (before, reply, after) = one_request(env, fx, line.as_bytes())?;
    let changed = before.diff(&after);
    if !after.part("outside_project").is_empty() {
        return Err(format!(
            "handler wrote outside project_root: {} (request {ty:?})",
            after.part("outside_project")
        ));
    }
    match reply {
        Reply::Line(raw) => {
            let parsed = parse_reply(&raw).map_err(|e| format!("(6) {e}: {}", cut(&raw, 200)))?;
            if parsed.id != Some(id) {
                return Err(format!("(6) reply id {:?} does not answer request id {id}", parsed.id));
            }
            Ok(Sent { parsed, changed, raw })
        }
        Reply::Closed => {
            let panics = take_panics();
            let am = if env.in_aftermath.get() {
                Ok(())
            } else {
                aftermath(env, fx, true, "a request that killed its connection")
            };
            Err(format!(
                "(6) no reply to {ty:?}: connection closed; panics {panics:?}{}",
                match am {
                    Err(e) => format!("\n  AFTERMATH: {e}"),
                    Ok(()) => String::new(),
                }
            ))
        }
        Reply::Timeout => Err("__timeout".into()),
    }
}

/// AFTERMATH: whatever happened before (a crash of the connection's thread, a robustness
/// case, a malformed line), what later requests are allowed to do must be unchanged. On a
/// FRESH connection: with an auth token configured (read from the state even if its mutex is
/// poisoned) requests without a valid credential are refused and change nothing; a pairing
/// token stands for exactly the role its store gives it; only the configured token is admin.
/// The requests are chosen so that a correct endpoint changes nothing (the fixture stays usable).
fn aftermath(env: &Env, fx: &mut Fixture, full: bool, why: &str) -> Result<(), String> {
    if env.in_aftermath.get() {
        return Ok(());
    }
    env.in_aftermath.set(true);
    let r = aftermath_inner(env, fx, full, why);
    env.in_aftermath.set(false);
    r
}

/// A read request without the probe around it (only the reply matters); fixed, safe strings.
fn ask(env: &Env, fx: &mut Fixture, ty: &str, auth: Option<&str>) -> Result<Sent, String> {
    let id = env.fresh_id();
    let mut obj = serde_json::Map::new();
    obj.insert("id".into(), json!(id));
    obj.insert("type".into(), json!(ty));
    if let Some(a) = auth {
        obj.insert("auth".into(), json!(a));
    }
    let line = J::Object(obj).to_string();
    line_is_safe(line.as_bytes(), &fx.dir)?;
    fx.set_request_clock();
    match fx.exchange(line.as_bytes()) {
        Reply::Line(raw) => {
            let parsed = parse_reply(&raw).map_err(|e| format!("(6) {e}: {}", cut(&raw, 200)))?;
            if parsed.id != Some(id) {
                return Err(format!("(6) reply id {:?} does not answer request id {id}", parsed.id));
            }
            Ok(Sent { parsed, changed: Vec::new(), raw })
        }
        Reply::Closed => Err(format!("(6) no reply to {ty:?}: connection closed; panics {:?}", take_panics())),
        Reply::Timeout => Err("__timeout".into()),
    }
}

fn aftermath_inner(env: &Env, fx: &mut Fixture, full: bool, why: &str) -> Result<(), String> {
    fx.reconnect()
        .map_err(|e| format!("(6) after {why} the endpoint accepts no new connection: {e}"))?;
    let (token, poisoned) = fx.configured_token();
    let token_set = token.is_some();
    let cfg = fx.cfg;
    let t = env.tpl.tokens.clone();
    let note = if poisoned { " [the auth-token mutex is poisoned]" } else { "" };
    // (name, auth member, standing; None = no statement)
    let mut who: Vec<(&str, Option<String>, Option<Level>)> = Vec::new();
    let unauth = if token_set { Some(Level::Unauth) } else { None };
    who.push(("no credential", None, unauth));
    who.push(("a wrong credential", Some("not-a-token-5c1d".into()), unauth));
    let pairing = |tok: &str| -> Option<Level> {
        let role = if cfg.pairing_present() { fx.store.validate_with_role(tok) } else { None };
        match role {
            Some(r) => Level::parse(r.as_str()),
            None => unauth,
        }
    };
    who.push(("the viewer pairing token", Some(t.viewer.clone()), pairing(&t.viewer)));
    if full {
        who.push(("the operator pairing token", Some(t.operator.clone()), pairing(&t.operator)));
        who.push(("the engineer pairing token", Some(t.engineer.clone()), pairing(&t.engineer)));
        who.push(("the revoked pairing token", Some(t.revoked.clone()), pairing(&t.revoked)));
    }
    if let Some(tok) = &token {
        who.push(("the configured auth token", Some(tok.clone()), Some(Level::Admin)));
    }
    for (name, auth, standing) in who {
        let Some(l) = standing else { continue };
        let auth = auth.as_deref();
        let s = ask(env, fx, "status", auth)?;
        let served = s.parsed.class.passed_role_gate();
        if l == Level::Unauth {
            if served || s.parsed.ok || s.parsed.has_result || !s.changed.is_empty() {
                return Err(format!(
                    "(1) after {why}, on a fresh connection, status with {name} is served although an auth token is configured{note}: {}",
                    cut(&s.raw, 200)
                ));
            }
        } else if !served {
            return Err(format!(
                "after {why}, on a fresh connection, status with {name} (standing {l:?}) is refused{note}: {}",
                cut(&s.raw, 200)
            ));
        }
        if l < Level::Engineer {
            let s = send(env, fx, "io.write", Some(json!({"address": "%IX0.4", "value": "true"})), auth)?;
            if s.parsed.class.passed_role_gate() || s.parsed.ok || !s.changed.is_empty() {
                return Err(format!(
                    "({}) after {why}, on a fresh connection, io.write with {name} (standing {l:?}) is not refused{note}: {} changed {:?}",
                    if l == Level::Unauth { 1 } else { 2 },
                    cut(&s.raw, 200),
                    s.changed
                ));
            }
        }
        if full || l == Level::Admin {
            let s = ask(env, fx, "pair.list", auth)?;
            let served = s.parsed.class.passed_role_gate();
            if served != (l == Level::Admin) || !s.changed.is_empty() {
                return Err(format!(
                    "after {why}, on a fresh connection, pair.list (admin only) with {name} (standing {l:?}) is {}{note}: {}",
                    if served { "served" } else { "refused" },
                    cut(&s.raw, 200)
                ));
            }
        }
    }
    Ok(())
}

fn check_history(env: &Env, case: &HistoryCase, probe: &mut Probe) -> Result<(), String> {
    let cfg = case.cfg;
    let kind = case.kind % HISTORY_KINDS;
    probe.label(format!("history={kind}"));
    let mut fx = match env.take(cfg, true) {
        Ok(fx) => fx,
        Err(e) => {
            env.infra(format!("fixture: {e}"));
            return Ok(());
        }
    };
    // administrator of this configuration
    let admin: Option<&str> = if cfg.token_set { Some(ADMIN_TOKEN) } else { None };
    let io_write = || Some(json!({"address": "%IX0.3", "value": "true"}));
    let t = env.tpl.tokens.clone();
    let res = (|| -> Result<(), String> {
        let must_serve = |s: &Sent, what: &str| -> Result<(), String> {
            if s.parsed.class.passed_role_gate() {
                Ok(())
            } else {
                Err(format!("history {kind} [{}]: {what} should be served, got {}", cfg.key(), cut(&s.raw, 200)))
            }
        };
        let must_refuse = |s: &Sent, what: &str| -> Result<(), String> {
            if s.parsed.ok || s.parsed.has_result || !s.changed.is_empty() || s.parsed.class.passed_role_gate() {
                Err(format!(
                    "history {kind} [{}]: {what} must be refused and change nothing, got {} changed {:?}",
                    cfg.key(),
                    cut(&s.raw, 200),
                    s.changed
                ))
            } else {
                Ok(())
            }
        };
        match kind {
            0 => {
                // rotate the auth token: the old one is dead, the new one is admin
                let s = send(env, &mut fx, "config.set", Some(json!({"control.auth_token": "rot-8841"})), admin)?;
                must_serve(&s, "config.set by the administrator")?;
                if !s.parsed.ok {
                    return Ok(());
                }
                let s = send(env, &mut fx, "io.write", io_write(), Some(ADMIN_TOKEN))?;
                must_refuse(&s, "(1) io.write with the replaced auth token")?;
                let s = send(env, &mut fx, "status", None, None)?;
                must_refuse(&s, "(1) status without credential after a token was configured")?;
                let s = send(env, &mut fx, "io.write", io_write(), Some("rot-8841"))?;
                must_serve(&s, "io.write with the new auth token")?;
                let s = send(env, &mut fx, "io.write", io_write(), Some(&t.viewer))?;
                must_refuse(&s, "(2) io.write with the viewer token after token rotation")?;
            }
            1 => {
                // revoke through the endpoint
                let s = send(env, &mut fx, "pair.revoke", Some(json!({"id": env.tpl.tokens.id_engineer})), admin)?;
                must_serve(&s, "pair.revoke by the administrator")?;
                if cfg.token_set {
                    let s = send(env, &mut fx, "io.write", io_write(), Some(&t.engineer))?;
                    must_refuse(&s, "(1) io.write with a pairing token revoked through the endpoint")?;
                }
                let s = send(env, &mut fx, "io.write", io_write(), Some(&t.viewer))?;
                must_refuse(&s, "(2) io.write with the viewer token")?;
            }
            2 => {
                // pair a new viewer through the endpoint
                let s = send(env, &mut fx, "pair.start", None, admin)?;
                must_serve(&s, "pair.start by the administrator")?;
                let code = serde_json::from_str::<J>(&s.raw)
                    .ok()
                    .and_then(|v| v["result"]["code"].as_str().map(str::to_string))
                    .unwrap_or_default();
                let s = send(env, &mut fx, "pair.claim", Some(json!({"code": code, "role": "viewer"})), Some(&t.viewer))?;
                must_refuse(&s, "(2) pair.claim with the viewer token")?;
                let s = send(env, &mut fx, "pair.claim", Some(json!({"code": code, "role": "viewer"})), Some(&t.operator))?;
                must_serve(&s, "pair.claim with the operator token")?;
                let minted = serde_json::from_str::<J>(&s.raw)
                    .ok()
                    .and_then(|v| v["result"]["token"].as_str().map(str::to_string));
                if let Some(tok) = minted {
                    let s = send(env, &mut fx, "status", None, Some(&tok))?;
                    must_serve(&s, "status with the freshly paired viewer token")?;
                    let s = send(env, &mut fx, "io.write", io_write(), Some(&tok))?;
                    must_refuse(&s, "(2) io.write with the freshly paired viewer token")?;
                    let s = send(env, &mut fx, "config.set", Some(json!({"log.level": "trace"})), Some(&tok))?;
                    must_refuse(&s, "(2) config.set with the freshly paired viewer token")?;
                }
            }
            3 => {
                // switch debugging off at run time
                if !cfg.debug_enabled {
                    return Ok(());
                }
                let s = send(env, &mut fx, "config.set", Some(json!({"control.debug_enabled": false})), admin)?;
                must_serve(&s, "config.set by the administrator")?;
                for ty in ["pause", "step_in", "breakpoints.clear_all", "debug.state"] {
                    let s = send(env, &mut fx, ty, None, admin)?;
                    if s.parsed.ok || s.parsed.has_result || !s.changed.is_empty() {
                        return Err(format!(
                            "history {kind} [{}]: (5) {ty} after debugging was switched off must be refused, got {} changed {:?}",
                            cfg.key(),
                            cut(&s.raw, 200),
                            s.changed
                        ));
                    }
                }
            }
            4 => {
                // configure a token at run time: anonymous access ends
                if cfg.token_set {
                    return Ok(());
                }
                let s = send(env, &mut fx, "config.set", Some(json!({"control.auth_token": "late-5521"})), None)?;
                must_serve(&s, "config.set on an endpoint without token")?;
                let s = send(env, &mut fx, "io.write", io_write(), None)?;
                must_refuse(&s, "(1) io.write without credential after a token was configured")?;
                let s = send(env, &mut fx, "config.get", None, Some("wrong"))?;
                must_refuse(&s, "(1) config.get with a wrong credential after a token was configured")?;
            }
            _ => {
                // revoke everything
                let s = send(env, &mut fx, "pair.revoke", Some(json!({"id": "all"})), admin)?;
                must_serve(&s, "pair.revoke all by the administrator")?;
                if cfg.token_set {
                    for tok in [&t.viewer, &t.operator, &t.engineer] {
                        let s = send(env, &mut fx, "status", None, Some(tok))?;
                        must_refuse(&s, "(1) status with a pairing token after 'revoke all'")?;
                    }
                }
            }
        }
        Ok(())
    })();
    env.put_back(fx, true);
    match res {
        Err(e) if e == "__timeout" => Ok(()),
        Err(e) => Err(e),
        Ok(()) => {
            probe.nontrivial(format!("history|{}|{kind}", cfg.key()).as_bytes());
            Ok(())
        }
    }
}

// ---------------------------------------------------------------------------------------
// pairing histories: tokens minted through the endpoint (several within one clock second
// and at distinct seconds), revoked by id / all at once, run out; after every step every
// token ever seen is probed with a read request and a mutating request.
// ---------------------------------------------------------------------------------------

#[derive(Clone, Debug, serde::Serialize, serde::Deserialize)]
enum PairOp {
    /// `n` pair.start/pair.claim cycles at the current clock value
    Mint { role: u8, n: u8 },
    /// advance the injected clock: 0 = 1 s, 1 = 7 s, 2 = to 500 s before the oldest live
    /// token runs out, 3 = to 10 s after the oldest live token has run out, 4 = to 10 s after
    /// the youngest live token has run out
    Tick { how: u8 },
    /// pair.revoke of the id of the `idx`-th known token (ids as reported by pair.list)
    RevokeIdOf { idx: u8 },
    /// the same pair.revoke once more
    RevokeAgain,
    RevokeAll,
}

#[derive(Clone, Debug, serde::Serialize, serde::Deserialize)]
struct PairHistory {
    cfg: Cfg,
    ops: Vec<PairOp>,
}

struct Tok {
    name: String,
    token: String,
    /// role the token was minted with
    role: Level,
    /// id under which pair.list shows it
    id: String,
    expires_at: u64,
    /// a pair.revoke that covered this token (by id or "all") was answered ok
    revoked: bool,
}

fn pair_history_from_tape(r: &mut Reader) -> PairHistory {
    let cfgs = domain::all_cfgs();
    // the revoked/expired clauses of the property speak about a configured token: 3 of 4 there
    let mut cfg = cfgs[r.pick(cfgs.len())];
    if r.chance(3, 4) {
        cfg.token_set = true;
    }
    let n = 2 + r.pick(7);
    let mut ops = Vec::new();
    // start with something to revoke
    ops.push(PairOp::Mint { role: r.pick(3) as u8, n: 1 + r.pick(3) as u8 });
    for _ in 0..n {
        ops.push(match r.weighted(&[5, 4, 5, 2, 1]) {
            0 => PairOp::Mint { role: r.weighted(&[4, 4, 4, 1, 1, 1, 1, 1]) as u8, n: 1 + r.pick(3) as u8 },
            1 => PairOp::Tick { how: r.weighted(&[4, 2, 1, 2, 1]) as u8 },
            2 => PairOp::RevokeIdOf { idx: r.pick(16) as u8 },
            3 => PairOp::RevokeAgain,
            _ => PairOp::RevokeAll,
        });
    }
    PairHistory { cfg, ops }
}

/// The fixed scenarios every run enumerates (for every configuration).
fn pair_scenarios() -> Vec<(&'static str, Vec<PairOp>)> {
    use PairOp::*;
    vec![
        // two / three tokens of one second share an id: revoking it covers all of them
        ("same_second_2", vec![Mint { role: 2, n: 2 }, RevokeIdOf { idx: 5 }, RevokeAgain]),
        ("same_second_3", vec![Mint { role: 1, n: 3 }, RevokeIdOf { idx: 6 }]),
        ("same_second_revoke_first", vec![Mint { role: 2, n: 3 }, RevokeIdOf { idx: 4 }]),
        // distinct seconds: the other token keeps working
        ("distinct_seconds", vec![Mint { role: 2, n: 1 }, Tick { how: 0 }, Mint { role: 2, n: 1 }, RevokeIdOf { idx: 5 }, RevokeIdOf { idx: 4 }]),
        // mixed: two of one second, one of the next
        ("mixed", vec![Mint { role: 2, n: 2 }, Tick { how: 0 }, Mint { role: 1, n: 1 }, RevokeIdOf { idx: 6 }, Mint { role: 0, n: 2 }, RevokeIdOf { idx: 8 }]),
        // revoke an id, then a NEW claim within the same second: that one is a live token
        ("revoke_then_claim_same_second", vec![Mint { role: 2, n: 2 }, RevokeIdOf { idx: 5 }, Mint { role: 2, n: 2 }, RevokeIdOf { idx: 7 }, Mint { role: 1, n: 1 }]),
        // the fixture's own tokens, by id (known tokens with an id are indexed: 0-3 the
        // fixture's viewer/operator/engineer/revoked, 4.. the minted ones in order)
        ("template_ids", vec![RevokeIdOf { idx: 2 }, RevokeIdOf { idx: 0 }, Mint { role: 0, n: 1 }]),
        // running out interleaved with revocation
        ("expiry_interleaved", vec![Mint { role: 2, n: 2 }, Tick { how: 2 }, Mint { role: 2, n: 2 }, RevokeIdOf { idx: 5 }, Tick { how: 3 }, RevokeIdOf { idx: 7 }, Mint { role: 1, n: 1 }, Tick { how: 3 }]),
        ("expiry_then_revoke_dead_id", vec![Mint { role: 1, n: 2 }, Tick { how: 3 }, Tick { how: 3 }, RevokeIdOf { idx: 5 }, Mint { role: 2, n: 2 }, RevokeIdOf { idx: 7 }]),
        ("role_spellings", vec![Mint { role: 3, n: 1 }, Mint { role: 4, n: 1 }, Mint { role: 5, n: 1 }, Mint { role: 6, n: 1 }, Mint { role: 7, n: 2 }, RevokeIdOf { idx: 4 }]),
        ("revoke_all", vec![Mint { role: 2, n: 2 }, Tick { how: 1 }, Mint { role: 0, n: 1 }, RevokeAll, Mint { role: 2, n: 2 }, RevokeAll, RevokeAgain]),
    ]
}

fn check_pair_history(env: &Env, case: &PairHistory, probe: &mut Probe) -> Result<(), String> {
    let cfg = case.cfg;
    let mut fx = match env.take(cfg, true) {
        Ok(fx) => fx,
        Err(e) => {
            env.infra(format!("fixture: {e}"));
            return Ok(());
        }
    };
    let res = run_pair_history(env, &mut fx, case, probe);
    env.put_back(fx, true);
    match res {
        Err(e) if e == "__timeout" => Ok(()),
        Err(e) => Err(format!("pairing history [{}] {:?}\n  {e}", cfg.key(), case.ops)),
        Ok(()) => {
            probe.nontrivial(format!("pairhist|{}|{:?}", cfg.key(), case.ops).as_bytes());
            Ok(())
        }
    }
}

fn run_pair_history(
    env: &Env,
    fx: &mut Fixture,
    case: &PairHistory,
    probe: &mut Probe,
) -> Result<(), String> {
    let cfg = case.cfg;
    let admin: Option<&str> = if cfg.token_set { Some(ADMIN_TOKEN) } else { None };
    let t = env.tpl.tokens.clone();
    let mut now = fx.t_req;
    // what pair.list says about the fixture's own tokens (id, expiry) - by token tail
    let list = |env: &Env, fx: &mut Fixture| -> Result<Vec<J>, String> {
        let s = send(env, fx, "pair.list", None, admin)?;
        if !s.parsed.ok {
            return Err(format!("pair.list by the administrator is not served: {}", cut(&s.raw, 200)));
        }
        Ok(serde_json::from_str::<J>(&s.raw)
            .ok()
            .and_then(|v| v["result"]["tokens"].as_array().cloned())
            .unwrap_or_default())
    };
    let tail_of = |tok: &str| -> String {
        let n = tok.chars().count();
        tok.chars().skip(n.saturating_sub(4)).collect()
    };
    let entry_matches = |e: &J, tok: &str| -> bool {
        e["tail"].as_str().map(|s| s.ends_with(&tail_of(tok))).unwrap_or(false)
    };
    let mut toks: Vec<Tok> = Vec::new();
    {
        let entries = list(env, fx)?;
        let own = [
            ("tpl_viewer", &t.viewer, Level::Viewer, false),
            ("tpl_operator", &t.operator, Level::Operator, false),
            ("tpl_engineer", &t.engineer, Level::Engineer, false),
            ("tpl_revoked", &t.revoked, Level::Engineer, true),
        ];
        for (name, token, role, revoked) in own {
            let e = entries.iter().find(|e| entry_matches(e, token));
            let Some(e) = e else {
                return Err(format!("pair.list does not show the fixture token {name}"));
            };
            toks.push(Tok {
                name: name.to_string(),
                token: token.clone(),
                role,
                id: e["id"].as_str().unwrap_or("").to_string(),
                expires_at: e["expires_at"].as_u64().unwrap_or(0),
                revoked,
            });
        }
        // the run-out token: gone from the list, must stay refused
        toks.push(Tok {
            name: "tpl_expired".into(),
            token: t.expired.clone(),
            role: Level::Engineer,
            id: String::new(),
            expires_at: 0,
            revoked: false,
        });
    }
    let mut last_revoke: Option<String> = None;
    let mut minted = 0usize;

    // probe every token ever seen against the model
    let sweep = |env: &Env, fx: &mut Fixture, toks: &[Tok], now: u64, after: &str, probe: &mut Probe| -> Result<(), String> {
        for tk in toks {
            let dead = tk.revoked || tk.expires_at < now;
            let why = if tk.revoked { "revoked" } else { "run out" };
            for (ty, params) in [
                ("status", None),
                ("io.write", Some(json!({"address": "%IX0.3", "value": "true"}))),
            ] {
                let s = send(env, fx, ty, params, Some(&tk.token))?;
                if dead {
                    if !cfg.token_set {
                        // no auth token configured: the property makes no statement
                        continue;
                    }
                    probe.label(format!("pairhist_probe=dead_{}", if tk.revoked { "revoked" } else { "expired" }));
                    if s.parsed.ok
                        || s.parsed.has_result
                        || !s.changed.is_empty()
                        || s.parsed.class != Class::Unauthorized
                    {
                        return Err(format!(
                            "(1) after {after}: {ty} with the {why} pairing token {} (id {:?}, minted as {:?}) must be answered 'unauthorized' and change nothing, got {} changed {:?}",
                            tk.name, tk.id, tk.role, cut(&s.raw, 200), s.changed
                        ));
                    }
                    if s.raw.contains("zq_canary") || s.raw.contains("ZQRES") {
                        return Err(format!("(1) after {after}: reply to the {why} token {} reveals runtime data: {}", tk.name, cut(&s.raw, 200)));
                    }
                } else {
                    probe.label("pairhist_probe=live");
                    let may_write = tk.role >= Level::Engineer;
                    if ty == "status" && tk.role < Level::Admin {
                        // no pairing token stands for more than the role pair.list reports
                        let a = send(env, fx, "pair.list", None, Some(&tk.token))?;
                        if a.parsed.class.passed_role_gate() || a.parsed.has_result {
                            return Err(format!(
                                "after {after}: pair.list (admin only) is served for the pairing token {} which pair.list reports as {:?}: {}",
                                tk.name, tk.role, cut(&a.raw, 200)
                            ));
                        }
                    }
                    if ty == "status" || may_write {
                        if !s.parsed.class.passed_role_gate() {
                            return Err(format!(
                                "after {after}: {ty} with the live pairing token {} (id {:?}, role {:?}, not covered by any revocation, expires {} > now {now}) is refused: {}",
                                tk.name, tk.id, tk.role, tk.expires_at, cut(&s.raw, 200)
                            ));
                        }
                    } else if s.parsed.class.passed_role_gate() || !s.changed.is_empty() || s.parsed.ok {
                        return Err(format!(
                            "(2) after {after}: io.write with the {:?} pairing token {} must be refused and change nothing, got {} changed {:?}",
                            tk.role, tk.name, cut(&s.raw, 200), s.changed
                        ));
                    }
                }
            }
        }
        Ok(())
    };

    fx.t_req = now;
    sweep(env, fx, &toks, now, "set-up", probe)?;
    for op in &case.ops {
        let after: String;
        match op {
            PairOp::Mint { role, n } => {
                // 0-2 canonical; 3-7 spellings the claim handler may or may not accept - the
                // role such a token stands for is the one pair.list reports for it
                let (role_name, role_lvl, spelled) = match role % 8 {
                    0 => ("viewer", Level::Viewer, false),
                    1 => ("operator", Level::Operator, false),
                    2 => ("engineer", Level::Engineer, false),
                    3 => ("Engineer ", Level::Engineer, true),
                    4 => ("VIEWER", Level::Viewer, true),
                    5 => (" operator", Level::Operator, true),
                    6 => ("ADMIN", Level::Engineer, true),
                    _ => ("admin", Level::Engineer, true),
                };
                for _ in 0..(*n).clamp(1, 3) {
                    if toks.len() >= 40 {
                        break;
                    }
                    let s = send(env, fx, "pair.start", None, admin)?;
                    if !s.parsed.ok {
                        return Err(format!("pair.start by the administrator is not served: {}", cut(&s.raw, 200)));
                    }
                    let code = serde_json::from_str::<J>(&s.raw)
                        .ok()
                        .and_then(|v| v["result"]["code"].as_str().map(str::to_string))
                        .unwrap_or_default();
                    let s = send(env, fx, "pair.claim", Some(json!({"code": code, "role": role_name})), admin)?;
                    if !s.parsed.ok && spelled && s.parsed.class == Class::HandlerError {
                        // the handler does not accept this spelling of a role: nothing minted
                        probe.label("pairhist_op=mint_role_spelling_rejected");
                        continue;
                    }
                    if !s.parsed.ok {
                        return Err(format!("pair.claim by the administrator with the fresh code is not served: {}", cut(&s.raw, 200)));
                    }
                    let token = serde_json::from_str::<J>(&s.raw)
                        .ok()
                        .and_then(|v| v["result"]["token"].as_str().map(str::to_string))
                        .ok_or("pair.claim reply carries no token")?;
                    // id and expiry as the endpoint reports them: the enabled entry with this
                    // token's tail that no known live token accounts for
                    let entries = list(env, fx)?;
                    let e = entries
                        .iter()
                        .filter(|e| entry_matches(e, &token) && e["enabled"].as_bool() == Some(true))
                        .last()
                        .cloned()
                        .ok_or_else(|| format!("pair.list shows no enabled entry for the token just claimed (tail {})", tail_of(&token)))?;
                    minted += 1;
                    let role_lvl = if spelled {
                        probe.label("pairhist_op=mint_role_spelling_accepted");
                        e["role"].as_str().and_then(Level::parse).unwrap_or(role_lvl)
                    } else {
                        role_lvl
                    };
                    toks.push(Tok {
                        name: format!("minted{minted}_{}@{now}", role_name.trim()),
                        token,
                        role: role_lvl,
                        id: e["id"].as_str().unwrap_or("").to_string(),
                        expires_at: e["expires_at"].as_u64().unwrap_or(0),
                        revoked: false,
                    });
                }
                probe.label("pairhist_op=mint");
                after = format!("minting {n} {role_name} token(s) at clock {now}");
            }
            PairOp::Tick { how } => {
                let oldest_live = toks
                    .iter()
                    .filter(|t| !t.revoked && t.expires_at >= now)
                    .map(|t| t.expires_at)
                    .min();
                let youngest_live = toks
                    .iter()
                    .filter(|t| !t.revoked && t.expires_at >= now)
                    .map(|t| t.expires_at)
                    .max();
                now = match (how % 5, oldest_live) {
                    (0, _) => now + 1,
                    (1, _) => now + 7,
                    (2, Some(e)) if e > now + 500 => e - 500,
                    (3, Some(e)) => e + 10,
                    (4, _) => youngest_live.map(|e| e + 10).unwrap_or(now + 3),
                    _ => now + 3,
                };
                fx.t_req = now;
                probe.label(format!("pairhist_op=tick{}", how % 5));
                after = format!("advancing the clock to {now}");
            }
            PairOp::RevokeIdOf { .. } | PairOp::RevokeAgain | PairOp::RevokeAll => {
                let id = match op {
                    PairOp::RevokeIdOf { idx } => {
                        let with_id: Vec<&Tok> = toks.iter().filter(|t| !t.id.is_empty()).collect();
                        with_id[*idx as usize % with_id.len()].id.clone()
                    }
                    PairOp::RevokeAll => "all".to_string(),
                    _ => match &last_revoke {
                        Some(id) => id.clone(),
                        None => continue,
                    },
                };
                let s = send(env, fx, "pair.revoke", Some(json!({"id": id})), admin)?;
                if !s.parsed.class.passed_role_gate() {
                    return Err(format!("pair.revoke by the administrator is refused: {}", cut(&s.raw, 200)));
                }
                if s.parsed.ok {
                    // a revocation the endpoint confirmed covers every token that exists now
                    // under that id (all tokens for "all")
                    for tk in toks.iter_mut() {
                        if id == "all" || (!tk.id.is_empty() && tk.id == id) {
                            tk.revoked = true;
                        }
                    }
                    probe.label("pairhist_op=revoke_ok");
                } else {
                    probe.label("pairhist_op=revoke_not_found");
                }
                last_revoke = Some(id.clone());
                after = format!("pair.revoke {id:?} ({})", if s.parsed.ok { "confirmed" } else { "not confirmed" });
            }
        }
        sweep(env, fx, &toks, now, &after, probe)?;
        // what pair.list shows as disabled must be dead for the model as well
        let entries = list(env, fx)?;
        for tk in &toks {
            let shown_disabled = entries.iter().any(|e| {
                entry_matches(e, &tk.token) && e["id"].as_str() == Some(tk.id.as_str()) && e["enabled"].as_bool() == Some(false)
            });
            let shown_enabled = entries.iter().any(|e| {
                entry_matches(e, &tk.token) && e["id"].as_str() == Some(tk.id.as_str()) && e["enabled"].as_bool() == Some(true)
            });
            if shown_disabled && !shown_enabled && !tk.revoked && tk.expires_at >= now {
                return Err(format!(
                    "after {after}: pair.list shows {} (id {:?}) as disabled although no confirmed revocation covered it",
                    tk.name, tk.id
                ));
            }
        }
    }
    let same_second = {
        let mut ids: Vec<&str> = toks.iter().filter(|t| t.name.starts_with("minted")).map(|t| t.id.as_str()).collect();
        let n = ids.len();
        ids.sort();
        ids.dedup();
        ids.len() < n
    };
    if same_second {
        probe.label("pairhist=has_shared_id");
    }
    if toks.iter().any(|t| t.revoked && t.name.starts_with("minted")) {
        probe.label("pairhist=revoked_minted_token");
    }
    if toks.iter().any(|t| !t.revoked && t.expires_at < now && t.name.starts_with("minted")) {
        probe.label("pairhist=expired_minted_token");
    }
    Ok(())
}

/// Containment (see guard.rs): moat, privilege drop, working directory. None = no case may run.
fn contain(ctx: &mut RunCtx) -> Option<std::path::PathBuf> {
    if !crate::engine::verif_root().is_absolute() {
        ctx.inconclusive("containment: TPV_ROOT must be an absolute path (the working directory is moved into the scratch moat)");
        return None;
    }
    if let Some(p) = ctx.only_replay.clone() {
        // the replay file must stay readable after the working directory and the identity changed
        let copy = ctx.out_dir.join(format!("replay-input-{}.json", std::process::id()));
        match std::fs::read(&p).and_then(|b| std::fs::write(&copy, b)) {
            Ok(()) => {
                use std::os::unix::fs::PermissionsExt;
                let _ = std::fs::set_permissions(&copy, std::fs::Permissions::from_mode(0o644));
                ctx.only_replay = Some(copy);
            }
            Err(e) => {
                ctx.inconclusive(format!("containment: cannot copy replay file {}: {e}", p.display()));
                return None;
            }
        }
    }
    // scratch tops of earlier runs that were killed (watchdog) are removed
    if ctx.worker == 0 {
        if let Ok(rd) = std::fs::read_dir("/tmp") {
            for e in rd.flatten() {
                let name = e.file_name().to_string_lossy().to_string();
                if let Some(rest) = name.strip_prefix("tpv-c18-") {
                    let pid = rest.split('-').next().and_then(|p| p.parse::<i32>().ok());
                    if let Some(pid) = pid {
                        if !std::path::Path::new(&format!("/proc/{pid}")).exists() {
                            let _ = std::fs::remove_dir_all(e.path());
                        }
                    }
                }
            }
        }
    }
    // short path: unix socket addresses are limited to 108 bytes
    let top = std::path::PathBuf::from(format!("/tmp/tpv-c18-{}-w{}", std::process::id(), ctx.worker));
    let m = match guard::Moat::build(&top) {
        Ok(m) => m,
        Err(e) => {
            ctx.inconclusive(format!("containment: {e}"));
            return None;
        }
    };
    match guard::drop_privileges(&m.top, &ctx.out_dir) {
        Ok(true) => ctx.note("containment: started as root, dropped to uid/gid 65534 before the first request; fixtures (project root, pairing store, socket) 8 levels deep in a scratch moat, working directory inside the moat; every string of every request guarded (<= 6 parent-like components, absolute only inside the moat); moat oracle after every request"),
        Ok(false) => ctx.note("containment: not root, no privilege drop; relies on the scratch moat (fixtures 8 levels deep, working directory inside it), the string guard (<= 6 parent-like components, absolute only inside the moat) and the moat oracle after every request"),
        Err(e) => {
            ctx.inconclusive(format!("containment: privilege drop failed, no case was run: {e}"));
            return None;
        }
    }
    for dir in [m.bottom.clone(), ctx.out_dir.clone()] {
        let probe = dir.join(format!(".c18-write-test-{}", std::process::id()));
        if let Err(e) = std::fs::write(&probe, b"x").and_then(|_| std::fs::remove_file(&probe)) {
            ctx.inconclusive(format!(
                "containment: cannot write in {} after the privilege drop ({e}); run from a location whose ancestors are world-searchable",
                dir.display()
            ));
            return None;
        }
    }
    if let Err(e) = std::env::set_current_dir(m.cwd()) {
        ctx.inconclusive(format!("containment: cannot move the working directory into the moat: {e}"));
        return None;
    }
    let foreign = m.foreign(None);
    if !foreign.is_empty() {
        ctx.inconclusive(format!("containment: the fresh moat is not empty: {foreign}"));
        return None;
    }
    let bottom = m.bottom.clone();
    if MOAT.set(m).is_err() {
        ctx.inconclusive("containment: moat initialised twice");
        return None;
    }
    Some(bottom)
}

fn run(ctx: &mut RunCtx) {
    install_panic_recorder();
    let tier = ctx.tier;
    // read the sources under test while still privileged (the tree need not be world-readable)
    let repo = crate::engine::repo_root();
    let ex = match domain::extract(&repo) {
        Ok(ex) => ex,
        Err(e) => {
            ctx.inconclusive(format!("request types cannot be extracted from the sources: {e}"));
            return;
        }
    };
    let Some(base) = contain(ctx) else {
        return;
    };
    let tpl = match Template::build(base) {
        Ok(t) => t,
        Err(e) => {
            ctx.inconclusive(format!("pairing template: {e}"));
            return;
        }
    };
    // debug-class = the harness's list + whatever the debugger/variable handler files dispatch
    let mut debug_class: BTreeSet<String> = domain::DEBUG_CLASS.iter().map(|s| s.to_string()).collect();
    for (ty, file) in &ex.dispatch {
        if file == "debug" || file == "variables" {
            debug_class.insert(ty.clone());
        }
    }
    let types: Vec<String> = ex.all().into_iter().collect();
    let unclassified: Vec<String> = types
        .iter()
        .filter(|t| !domain::is_mutating(t) && !domain::is_read_only(t))
        .cloned()
        .collect();
    let table_only: Vec<String> = types.iter().filter(|t| !ex.dispatch.contains_key(*t)).cloned().collect();
    let not_in_table: Vec<String> = ex
        .dispatch
        .keys()
        .filter(|t| !ex.required_table.contains(*t))
        .cloned()
        .collect();
    ctx.note(format!(
        "request types in the sources: {} dispatched, {} in the role table, {} in the debug gate; not classified by the harness: {:?}; in a table but not dispatched: {:?}; dispatched but absent from the role table (default = viewer): {:?}",
        ex.dispatch.len(),
        ex.required_table.len(),
        ex.debug_gate.len(),
        unclassified,
        table_only,
        not_in_table
    ));
    let env = Env {
        tpl,
        ex,
        debug_class,
        pool: RefCell::new(BTreeMap::new()),
        seq: RefCell::new(0),
        infra: RefCell::new(Vec::new()),
        notes: RefCell::new(BTreeSet::new()),
        next_id: RefCell::new(1000),
        rebuilds: RefCell::new(0),
        graveyard: RefCell::new(Vec::new()),
        cfg_req: BTreeMap::new(),
        unsafe_skipped: RefCell::new(0),
        in_aftermath: std::cell::Cell::new(false),
        moat_top: moat().map(|m| m.top.clone()).unwrap_or_default(),
    };
    let mut env = env;
    // calibrate the parameter-dependent requirement: what does the endpoint demand for each
    // configuration key in canonical spelling (asked with the viewer token, nothing changes)
    {
        let cfg = Cfg { token_set: true, debug_enabled: true, mode_debug: false, paused: false, variant: 0 };
        match env.take(cfg, false) {
            Ok(mut fx) => {
                let mut req = BTreeMap::new();
                let mut dirty = false;
                for key in env.ex.config_keys.iter() {
                    let mut m = serde_json::Map::new();
                    m.insert(key.clone(), fill(&domain::config_value(key), &fx, &env.tpl));
                    match send(&env, &mut fx, "config.set", Some(J::Object(m)), Some(&env.tpl.tokens.viewer)) {
                        Ok(s) => {
                            if let Class::Forbidden(Some(x)) = s.parsed.class {
                                req.insert(key.clone(), x);
                            }
                            if !s.changed.is_empty() {
                                dirty = true;
                            }
                        }
                        Err(_) => dirty = true,
                    }
                }
                env.put_back(fx, dirty);
                env.cfg_req = req;
            }
            Err(e) => env.infra(format!("fixture: {e}")),
        }
    }
    let env = env;
    {
        let by_endpoint: BTreeSet<String> = env
            .cfg_req
            .iter()
            .filter(|(_, l)| **l > Level::Engineer)
            .map(|(k, _)| k.clone())
            .collect();
        let uncalibrated: Vec<&String> = env.ex.config_keys.iter().filter(|k| !env.cfg_req.contains_key(*k)).collect();
        let unprobed: Vec<&String> = env
            .ex
            .config_keys
            .iter()
            .filter(|k| !fixture::PROBED_CONFIG_KEYS.contains(&k.as_str()))
            .collect();
        ctx.note(format!(
            "parameter-dependent requirements in the role table: types {:?}; config.set: {} keys known to the handler, singled out by required_role_for_config_set: {:?}; above engineer according to the endpoint's own refusals: {:?}; not calibrated: {:?}; keys without a probe part of their own: {:?}",
            env.ex.param_dependent,
            env.ex.config_keys.len(),
            env.ex.config_sensitive,
            by_endpoint,
            uncalibrated,
            unprobed
        ));
        let covered = ["io_snapshot", "pending_restart", "auth_token", "audit_tx", "project_root", "historian", "pairing"];
        let uncovered: Vec<&String> = env
            .ex
            .option_fields
            .iter()
            .map(|(n, _)| n)
            .filter(|n| !covered.contains(&n.as_str()))
            .collect();
        ctx.note(format!(
            "optional parts of ControlState in the source: {:?}; covered as configuration dimensions: auth_token (set/unset), pairing / project_root / io_snapshot (None), audit_tx / historian (Some), pending_restart (starts None); NOT covered: {:?}",
            env.ex.option_fields.iter().map(|(n, t)| format!("{n}: {t}")).collect::<Vec<_>>(),
            uncovered
        ));
        if env.ex.param_dependent.iter().any(|t| t != "config.set") {
            ctx.note("a request type other than config.set has a parameter-dependent requirement: its parameters are only covered by the generic spelling cases".to_string());
        }
    }

    // ---- the grid: every type found in the sources x valid params x config x credential
    if ctx.only_replay.is_none() {
        let mut groups: Vec<GroupCase> = Vec::new();
        for cfg in domain::all_cfgs() {
            for ty in &types {
                let classified = domain::is_mutating(ty) || domain::is_read_only(ty);
                let variants = if classified {
                    domain::valid_params(ty)
                } else {
                    domain::params_pool()
                };
                for p in variants {
                    groups.push(GroupCase {
                        cfg,
                        ty: ty.clone(),
                        schema_of: ty.clone(),
                        shape: "valid".into(),
                        params: p,
                        extra: None,
                        raw_params: None,
                        creds: domain::GRID_CREDS.to_vec(),
                    });
                }
            }
        }
        // garbled spellings of every mutating type, effective parameters
        for cfg in domain::all_cfgs() {
            if !cfg.debug_enabled || cfg.mode_debug {
                continue;
            }
            for ty in domain::MUTATING {
                for how in [0usize, 2, 3] {
                    groups.push(GroupCase {
                        cfg,
                        ty: domain::garble_type(ty, how),
                        schema_of: ty.to_string(),
                        shape: "valid".into(),
                        params: domain::valid_params(ty)[0].clone(),
                        extra: None,
                        raw_params: None,
                        creds: domain::GRID_CREDS.to_vec(),
                    });
                }
            }
        }
        // the debugger already paused when the request arrives: every debug-class type, every
        // configuration (a gate that looks at the debugger's state must not open while
        // debugging is disabled)
        for cfg in domain::all_cfgs() {
            let cfg = Cfg { paused: true, ..cfg };
            for ty in types.iter().filter(|t| env.debug_class.contains(*t)) {
                groups.push(GroupCase {
                    cfg,
                    ty: ty.clone(),
                    schema_of: ty.clone(),
                    shape: "valid".into(),
                    params: domain::valid_params(ty)[0].clone(),
                    extra: None,
                    raw_params: None,
                    creds: vec![Cred::None, Cred::Viewer, Cred::Operator, Cred::Engineer, Cred::Admin],
                });
            }
        }
        // optional parts of ControlState absent/present (fixture::VARIANTS): without a pairing
        // store and with every optional part absent, every type; for the other variants the
        // mutating types and the reads that consult the part
        {
            let n0 = groups.len();
            let reads = ["status", "config.get", "io.list", "io.read", "pair.list", "historian.query", "historian.alerts", "hmi.schema.get", "hmi.descriptor.get", "events.tail"];
            for (variant, _) in fixture::VARIANTS.iter().filter(|(v, _)| *v != 0) {
                let every_type = matches!(*variant, 1 | 6);
                for token_set in [true, false] {
                    if !token_set && !every_type {
                        continue;
                    }
                    let cfg = Cfg { token_set, debug_enabled: true, mode_debug: false, paused: false, variant: *variant };
                    for ty in &types {
                        if !(every_type || domain::is_mutating(ty) || reads.contains(&ty.as_str())) {
                            continue;
                        }
                        groups.push(GroupCase {
                            cfg,
                            ty: ty.clone(),
                            schema_of: ty.clone(),
                            shape: "valid".into(),
                            params: domain::valid_params(ty)[0].clone(),
                            extra: None,
                            raw_params: None,
                            creds: domain::GRID_CREDS.to_vec(),
                        });
                    }
                }
            }
            ctx.note(format!("optional-part variants: {} request templates x 9 credentials", groups.len() - n0));
        }
        ctx.note(format!("grid: {} request templates x {} credentials", groups.len(), domain::GRID_CREDS.len()));
        // robustness sweep: every member of every valid parameter object replaced by every
        // odd value / removed, sent by an administrator and by a viewer
        let n_grid = groups.len();
        for (i, ty) in types.iter().enumerate() {
            let cfg = Cfg {
                token_set: true,
                debug_enabled: true,
                mode_debug: i % 2 == 1,
                paused: false,
                variant: 0,
            };
            for p in domain::odd_param_variants(ty) {
                groups.push(GroupCase {
                    cfg,
                    ty: ty.clone(),
                    schema_of: ty.clone(),
                    shape: "wrong_typed".into(),
                    params: Some(p),
                    extra: None,
                    raw_params: None,
                    creds: vec![Cred::Admin, Cred::Viewer],
                });
            }
        }
        ctx.note(format!("robustness sweep: {} request templates x 2 credentials", groups.len() - n_grid));
        // spellings: keys the role decision singles out in every non-canonical spelling and
        // structure; every other key in the blank/tab/NBSP spellings; every string member
        // value (addresses, targets, roles, modes, ids, codes) and member name respelt
        let n_before = groups.len();
        let tok_cfg = Cfg { token_set: true, debug_enabled: true, mode_debug: false, paused: false, variant: 0 };
        let open_cfg = Cfg { token_set: false, debug_enabled: true, mode_debug: true, paused: false, variant: 0 };
        let mut above_engineer: BTreeSet<String> = env.ex.config_sensitive.clone();
        above_engineer.extend(env.cfg_req.iter().filter(|(_, l)| **l > Level::Engineer).map(|(k, _)| k.clone()));
        for key in env.ex.config_keys.iter() {
            if above_engineer.contains(key) {
                groups.extend(domain::config_spelling_cases(tok_cfg, key, true));
                groups.extend(domain::config_spelling_cases(open_cfg, key, false));
            } else {
                groups.extend(domain::config_spelling_cases(tok_cfg, key, false));
            }
        }
        for key in above_engineer.iter().filter(|k| !env.ex.config_keys.contains(*k)) {
            groups.extend(domain::config_spelling_cases(tok_cfg, key, true));
        }
        let n_cfg_spell = groups.len() - n_before;
        // strings that look like paths in every string parameter (string guard: <= 6 parents,
        // absolute only inside the moat); the moat oracle watches where files appear
        let n_before_paths = groups.len();
        groups.extend(domain::path_param_cases(tok_cfg, &types));
        let n_paths = groups.len() - n_before_paths;
        ctx.note(format!("path-like parameter cases: {n_paths} templates x 3 roles"));
        for ty in &types {
            groups.extend(domain::value_spelling_cases(tok_cfg, ty));
        }
        ctx.note(format!(
            "spelling cases: {} config.set key spellings/structures x 4 roles, {} respelt member values/names",
            n_cfg_spell,
            groups.len() - n_before - n_cfg_spell - n_paths
        ));
        for (i, g) in groups.iter().enumerate() {
            if i % ctx.nworkers.max(1) != ctx.worker {
                continue;
            }
            let j = serde_json::to_value(g).unwrap();
            ctx.enumerated("group", &j, |p| {
                p.label("phase=grid");
                check_group(&env, g, p)
            });
        }
    }

    // ---- generated request templates
    let types_for_gen = types.clone();
    let strat = tape_strategy(28).prop_map(move |t| {
        let mut r = Reader::new(&t);
        domain::group_from_tape(&mut r, &types_for_gen)
    });
    ctx.search("group", strat, tier.pick(2_000, 60_000), |c: &GroupCase, p| {
        p.label("phase=generated");
        check_group(&env, c, p)
    });

    // ---- malformed lines
    let types_for_lines = types.clone();
    let strat = tape_strategy(20).prop_map(move |t| {
        let mut r = Reader::new(&t);
        domain::line_from_tape(&mut r, &types_for_lines)
    });
    ctx.search("line", strat, tier.pick(3_000, 100_000), |c: &LineCase, p| check_line(&env, c, p));

    // ---- short histories (who is authorised changes at run time)
    let cfgs = domain::all_cfgs();
    let strat = (0..cfgs.len(), 0..HISTORY_KINDS).prop_map(move |(c, kind)| HistoryCase { cfg: cfgs[c], kind });
    ctx.search("history", strat, tier.pick(96, 960), |c: &HistoryCase, p| check_history(&env, c, p));

    // ---- pairing histories: fixed scenarios for every configuration, then generated ones
    if ctx.only_replay.is_none() {
        let mut i = 0usize;
        for cfg in domain::all_cfgs() {
            for (name, ops) in pair_scenarios() {
                i += 1;
                if i % ctx.nworkers.max(1) != ctx.worker {
                    continue;
                }
                let case = PairHistory { cfg, ops };
                let j = serde_json::to_value(&case).unwrap();
                ctx.enumerated("pairhist", &j, |p| {
                    p.label(format!("pairhist_scenario={name}"));
                    check_pair_history(&env, &case, p)
                });
            }
        }
    }
    let strat = tape_strategy(40).prop_map(|t| {
        let mut r = Reader::new(&t);
        pair_history_from_tape(&mut r)
    });
    ctx.search("pairhist", strat, tier.pick(240, 6_000), |c: &PairHistory, p| {
        p.label("pairhist=generated");
        check_pair_history(&env, c, p)
    });

    env.shutdown();
    ctx.note(format!("fixtures built by this worker: {}", env.rebuilds.borrow()));
    if *env.unsafe_skipped.borrow() > 0 {
        ctx.note(format!("string guard: {} request(s) were not sent", env.unsafe_skipped.borrow()));
    }
    for n in env.notes.borrow().iter() {
        ctx.note(n.clone());
    }
    for s in env.infra.borrow().iter() {
        ctx.inconclusive(s.clone());
    }
}
