//! C17 world: a stgen program wrapped into 1-3 program instances over 0-3 tasks, the
//! undebugged run of the real runtime (the transparency baseline) and the reference
//! statement trace mapped to source locations and debugger thread ids.

use std::collections::{BTreeMap, BTreeSet};

use serde::{Deserialize, Serialize};
use smol_str::SmolStr;

use crate::engine::catch;
use crate::engine::tape::Reader;
use crate::stgen::ast::*;
use crate::stgen::print::{print_program, PrintOpts};
use crate::stgen::rt::{flatten, snapshot, Real};
use trust_runtime::memory::VariableStorage;
use trust_runtime::value::Value;
use crate::stref::{flatten_state, CycleEnd, Machine, RefConfig};

/// How the generated PROGRAM is instantiated (our own CONFIGURATION wrapper; stgen itself
/// only ever produces one instance without tasks).
#[derive(Clone, Debug, PartialEq, Serialize, Deserialize)]
pub struct TaskCfg {
    /// Program instances: copies of `Main` (the pinned compiler rejects two instances of
    /// one PROGRAM type, so every instance gets its own copy of the POU with fresh
    /// statement ids).
    pub ninst: usize,
    /// `false`: no CONFIGURATION at all (one background program named `Main`).
    pub wrap: bool,
    pub ntasks: usize,
    /// Priority per task (pairwise distinct; 0 = highest).
    pub prio: Vec<u32>,
    /// Task of every instance; `None` = background program.
    pub task_of: Vec<Option<usize>>,
    /// Leading top-level statements dropped from the copy (instance 0 keeps everything).
    pub drop: Vec<usize>,
    /// The input trace is run this many times in a row.
    pub repeat: usize,
    /// Prepend one invocation of every FB instance and one call of every FUNCTION to Main
    /// (stgen's own programs call their POUs in fewer than one case in seven).
    #[serde(default)]
    pub inject_calls: bool,
    /// Put the injected calls at the start of Main instead of the end (then the first
    /// statement of a cycle - where a pause requested between two cycles lands - is a call).
    #[serde(default)]
    pub inject_front: bool,
    /// Statements that get a label (`L<id>: stmt`; no JMP, so the label is semantically
    /// neutral). The runtime lowers `L: stmt` to a Label statement around the inner one and
    /// calls the hook for both.
    #[serde(default)]
    pub labels: Vec<LabelSel>,
}

#[derive(Clone, Copy, Debug, PartialEq, Eq, Serialize, Deserialize)]
pub struct LabelSel {
    /// Prefer compound statements and statements containing a call.
    pub prefer: bool,
    pub idx: u16,
}

/// Pseudo statement id of the Label statement wrapped around statement `id`.
pub const LABEL_BASE: u32 = 1 << 30;

impl TaskCfg {
    pub fn single() -> TaskCfg {
        TaskCfg {
            ninst: 1,
            wrap: false,
            ntasks: 0,
            prio: vec![],
            task_of: vec![None],
            drop: vec![0],
            repeat: 1,
            inject_calls: false,
            inject_front: false,
            labels: Vec::new(),
        }
    }

    pub fn generate(r: &mut Reader, has_globals: bool, max_repeat: usize) -> TaskCfg {
        let ninst = [1usize, 2, 3][r.weighted(&[3, 3, 2])];
        let wrap = has_globals || ninst > 1 || r.chance(1, 2);
        let ntasks = if wrap { r.weighted(&[1, 3, 3, 2]) } else { 0 };
        // distinct priorities: a permutation drawn from the tape
        let mut pool: Vec<u32> = (0..ntasks as u32).collect();
        let mut prio = Vec::new();
        while !pool.is_empty() {
            let i = r.pick(pool.len());
            prio.push(pool.remove(i));
        }
        let mut task_of = Vec::new();
        let mut drop = Vec::new();
        for i in 0..ninst {
            if ntasks > 0 && r.chance(3, 4) {
                task_of.push(Some(r.pick(ntasks)));
            } else {
                task_of.push(None);
            }
            drop.push(if i == 0 { 0 } else { r.weighted(&[3, 2, 1]) });
        }
        let repeat = 1 + r.pick(max_repeat.max(1));
        let inject_calls = !r.chance(1, 5);
        let inject_front = inject_calls && r.chance(1, 2);
        let mut labels = Vec::new();
        if r.chance(1, 2) {
            for _ in 0..1 + r.pick(4) {
                labels.push(LabelSel {
                    prefer: r.chance(2, 3),
                    idx: (r.word() >> 16) as u16,
                });
            }
        }
        TaskCfg {
            ninst,
            wrap,
            ntasks,
            prio,
            task_of,
            drop,
            repeat,
            inject_calls,
            inject_front,
            labels,
        }
    }

    pub fn instance_name(&self, i: usize) -> String {
        if self.wrap {
            format!("P{i}")
        } else {
            "Main".to_string()
        }
    }

    /// Execution order of the instances within a cycle: tasks by priority (all tasks are due
    /// in every cycle: one INTERVAL, clock step >= INTERVAL), programs of one task in
    /// declaration order, then the background programs in declaration order.
    pub fn exec_order(&self) -> Vec<usize> {
        let mut tasks: Vec<usize> = (0..self.ntasks).collect();
        tasks.sort_by_key(|t| (self.prio[*t], *t));
        let mut order = Vec::new();
        for t in tasks {
            for i in 0..self.ninst {
                if self.task_of[i] == Some(t) {
                    order.push(i);
                }
            }
        }
        for i in 0..self.ninst {
            if self.task_of[i].is_none() {
                order.push(i);
            }
        }
        order
    }
}

fn program_name(i: usize) -> String {
    match i {
        0 => "Main".to_string(),
        _ => format!("Main{}", (b'A' + i as u8) as char),
    }
}

fn renumber(block: &mut [Stmt], off: u32) {
    for s in block {
        s.id += off;
        match &mut s.kind {
            StmtKind::If {
                then_,
                elsifs,
                else_,
                ..
            } => {
                renumber(then_, off);
                for (_, b) in elsifs {
                    renumber(b, off);
                }
                if let Some(b) = else_ {
                    renumber(b, off);
                }
            }
            StmtKind::Case { arms, else_, .. } => {
                for (_, b) in arms {
                    renumber(b, off);
                }
                if let Some(b) = else_ {
                    renumber(b, off);
                }
            }
            StmtKind::For { body, .. }
            | StmtKind::While { body, .. }
            | StmtKind::Repeat { body, .. } => renumber(body, off),
            _ => {}
        }
    }
}

/// One executed statement of the whole run (all cycles concatenated).
#[derive(Clone, Debug)]
pub struct Pos {
    pub cycle: usize,
    pub stmt: u32,
    pub depth: u32,
    /// Instance (declaration index) whose activation the statement belongs to.
    #[allow(dead_code)]
    pub inst: usize,
    /// Debugger thread id of that instance's task.
    pub thread: u32,
    pub start: u32,
    pub end: u32,
    /// Index of the statement's event in the reference trace of its cycle (empty statements
    /// counted; a label position shares the index of the statement it labels).
    pub ev: usize,
}

pub struct World {
    pub source: String,
    /// Program with the instances in declaration order (what `rt::snapshot` needs).
    pub decl: Program,
    /// The same program with the instances in execution order (what the reference runs).
    pub ref_prog: Program,
    pub cfg: TaskCfg,
    pub inputs: Vec<CycleInput>,
    pub pos: Vec<Pos>,
    /// statement id -> (start, end) as reported by `Runtime::statement_locations`.
    pub loc_of: BTreeMap<u32, (u32, u32)>,
    /// statement start offset -> statement id.
    pub stmt_at: BTreeMap<u32, u32>,
    /// statement id -> 1-based source line (messages).
    pub line_of: BTreeMap<u32, u32>,
    /// Distinct thread ids that execute statements, in execution order.
    pub threads: Vec<u32>,
    #[allow(dead_code)]
    pub inst_thread: Vec<u32>,
    /// Undebugged run: flattened storage after every cycle, and the cycle's errors.
    pub base_states: Vec<BTreeMap<String, Val>>,
    pub base_errors: Vec<String>,
    /// Distinct executed statement ids in order of first execution.
    pub executed: Vec<u32>,
    /// Those executed at call depth >= 1 at least once.
    pub executed_deep: Vec<u32>,
    /// All statements that have a location.
    pub all_stmts: Vec<u32>,
    pub faulted: bool,
    pub max_depth: u32,
}

pub enum Prep {
    Ready(Box<World>),
    /// The case is outside the domain (label says why); not judged.
    Skip(String),
    /// Generator / reference / harness inconsistency: never a verdict about the runtime.
    Internal(String),
}

fn path_under(path: &str, prefix: &str) -> bool {
    path == prefix
        || (path.starts_with(prefix)
            && matches!(path.as_bytes().get(prefix.len()), Some(b'.') | Some(b'[')))
}

fn for_control_paths(prog: &Program) -> Vec<String> {
    fn walk(prog: &Program, prefix: &str, pou: &Pou, out: &mut Vec<String>, depth: u32) {
        if depth > 6 {
            return;
        }
        for v in &pou.vars {
            if v.role == Role::ForControl {
                out.push(format!("{prefix}.{}", v.name));
            }
            if let Ty::Fb(f) = &v.ty {
                if let Some(p) = prog.pou(f) {
                    walk(prog, &format!("{prefix}.{}", v.name), p, out, depth + 1);
                }
            }
        }
    }
    let mut out = Vec::new();
    for (inst, pname) in &prog.instances {
        if let Some(p) = prog.pou(pname) {
            walk(prog, inst, p, &mut out, 0);
        }
    }
    out
}

fn simple_literal(ty: &Ty, k: usize) -> Option<Expr> {
    Some(Expr::Lit(match ty {
        Ty::Elem(Elem::Bool) => Val::Bool(k % 2 == 0),
        Ty::Elem(Elem::Real) => Val::real([1.0f32, 2.0, 0.5][k % 3]),
        Ty::Elem(Elem::LReal) => Val::lreal([1.0f64, 2.0, 0.5][k % 3]),
        Ty::Elem(Elem::Time) => Val::Time(1_000_000),
        Ty::Elem(e) => Val::Int(*e, [1i128, 2, 3][k % 3]),
        Ty::Enum(n) => Val::Enum(n.clone(), 0),
        _ => return None,
    }))
}

/// Prepend `fbX_k();` for every FB instance of Main (FBs without VAR_IN_OUT: an invocation
/// may leave inputs and outputs unbound) and one positional call statement per FUNCTION
/// (literal inputs, distinct Main variables for outputs / in-outs).
fn inject_calls(prog: &mut Program, omit: &[u32], front: bool) -> Vec<u32> {
    let mut max_id = 0u32;
    for p in &prog.pous {
        walk_stmts(&p.body, &mut |s| max_id = max_id.max(s.id));
    }
    let callees: Vec<Pou> = prog
        .pous
        .iter()
        .filter(|p| p.kind != PouKind::Program)
        .cloned()
        .collect();
    let Some(main) = prog.pous.iter_mut().find(|p| p.name == "Main") else {
        return Vec::new();
    };
    let mut new: Vec<Stmt> = Vec::new();
    // ids are stable under omission: max_id + 1 + ordinal of the candidate
    let mut next = max_id + 1;
    for v in &main.vars {
        if let Ty::Fb(f) = &v.ty {
            if let Some(fb) = callees.iter().find(|p| p.name == *f) {
                if !fb.vars.iter().any(|x| x.kind == VarKind::InOut) {
                    new.push(Stmt {
                        id: next,
                        kind: StmtKind::FbCall {
                            inst: Place::var(&v.name),
                            fb: f.clone(),
                            args: vec![],
                        },
                    });
                    next += 1;
                }
            }
        }
    }
    for f in callees.iter().filter(|p| p.kind == PouKind::Function) {
        let mut used: Vec<String> = Vec::new();
        let mut args = Vec::new();
        let mut ok = true;
        for (k, p) in f.params().enumerate() {
            let var_of = |used: &[String], fresh: bool| -> Option<String> {
                main.vars
                    .iter()
                    .find(|v| {
                        v.ty == p.ty
                            && v.kind == VarKind::Local
                            && v.role == Role::Data
                            && !v.constant
                            && !(fresh && used.contains(&v.name))
                    })
                    .map(|v| v.name.clone())
            };
            let val = match p.kind {
                VarKind::Input => match simple_literal(&p.ty, k) {
                    Some(e) => Some(ArgVal::In(e)),
                    None => var_of(&used, false).map(|v| ArgVal::In(Expr::Read(Place::var(&v)))),
                },
                VarKind::Output => var_of(&used, true).map(|v| {
                    used.push(v.clone());
                    ArgVal::Out(Place::var(&v))
                }),
                VarKind::InOut => var_of(&used, true).map(|v| {
                    used.push(v.clone());
                    ArgVal::InOut(Place::var(&v))
                }),
                _ => None,
            };
            match val {
                Some(val) => args.push(Arg {
                    param: p.name.clone(),
                    val,
                }),
                None => {
                    ok = false;
                    break;
                }
            }
        }
        if ok {
            new.push(Stmt {
                id: next,
                kind: StmtKind::CallStmt(Expr::Call {
                    func: f.name.clone(),
                    args,
                    formal: false,
                }),
            });
            next += 1;
        }
    }
    new.retain(|s| !omit.contains(&s.id));
    let ids = new.iter().map(|s| s.id).collect();
    if front {
        main.body.splice(0..0, new);
    } else {
        main.body.extend(new);
    }
    ids
}

/// Statement id (within Main, i.e. modulo the copy offset) of the injected call during which
/// the reference run faults, if any.
fn faulting_injected(
    prog: &Program,
    trace: &Trace,
    cfg: &TaskCfg,
    injected: &[u32],
    off: u32,
) -> Option<u32> {
    let order = cfg.exec_order();
    let mut ref_prog = prog.clone();
    ref_prog.instances = order.iter().map(|i| prog.instances[*i].clone()).collect();
    let mut m = Machine::new(
        &ref_prog,
        RefConfig {
            max_steps: 20_000,
            trace: true,
            trace_digests: false,
            ..RefConfig::default()
        },
    )
    .ok()?;
    for input in run_inputs(trace, cfg) {
        for w in &input.writes {
            m.write_input(w).ok()?;
        }
        let out = m.cycle();
        if m.internal_error.is_some() {
            return None;
        }
        match out.end {
            CycleEnd::Ok => {}
            CycleEnd::Budget => return None,
            CycleEnd::Fault(_) => {
                let top = out.trace.iter().rev().find(|e| e.depth == 0)?;
                let id = top.stmt % off;
                return injected.contains(&id).then_some(id);
            }
        }
    }
    None
}

/// Build the multi-instance program (declaration order) from the stgen program. Injected
/// calls during which the reference run faults are left out again (a fault ends the whole
/// run; stgen's own statements already fault in one case out of five).
pub fn wrap_program(
    base: &Program,
    trace: &Trace,
    cfg: &TaskCfg,
) -> Result<(Program, Vec<(u32, u32)>), String> {
    let mut omit: Vec<u32> = Vec::new();
    loop {
        let (prog, ranges, injected, off) = wrap_once(base, cfg, &omit)?;
        if injected.is_empty() || omit.len() >= 8 {
            return Ok((prog, ranges));
        }
        match faulting_injected(&prog, trace, cfg, &injected, off) {
            Some(id) => omit.push(id),
            None => return Ok((prog, ranges)),
        }
    }
}

#[allow(clippy::type_complexity)]
fn wrap_once(
    base: &Program,
    cfg: &TaskCfg,
    omit: &[u32],
) -> Result<(Program, Vec<(u32, u32)>, Vec<u32>, u32), String> {
    let mut prog = base.clone();
    let injected = if cfg.inject_calls {
        inject_calls(&mut prog, omit, cfg.inject_front)
    } else {
        Vec::new()
    };
    let main = prog
        .pou("Main")
        .ok_or_else(|| "generated program has no Main".to_string())?
        .clone();
    let mut max_id = 0u32;
    for p in &prog.pous {
        walk_stmts(&p.body, &mut |s| max_id = max_id.max(s.id));
    }
    let off = max_id + 1;
    prog.instances.clear();
    // id ranges of the program bodies: (lo, hi) per instance
    let mut ranges = Vec::new();
    for i in 0..cfg.ninst {
        if i > 0 {
            let mut copy = main.clone();
            copy.name = program_name(i);
            renumber(&mut copy.body, off * i as u32);
            let k = cfg
                .drop
                .get(i)
                .copied()
                .unwrap_or(0)
                .min(copy.body.len().saturating_sub(1));
            copy.body.drain(..k);
            prog.pous.push(copy);
        }
        ranges.push((off * i as u32, off * i as u32 + max_id));
        prog.instances.push((cfg.instance_name(i), program_name(i)));
    }
    Ok((prog, ranges, injected, off))
}

fn expr_has_call(e: &Expr) -> bool {
    match e {
        Expr::Call { .. } => true,
        Expr::Un(_, a) => expr_has_call(a),
        Expr::Bin(_, a, b) => expr_has_call(a) || expr_has_call(b),
        Expr::Std(_, args) => args.iter().any(expr_has_call),
        _ => false,
    }
}

/// Statements that may carry a label: (id, preferred). Statements directly inside a CASE arm
/// are left alone (`name:` would read as a case label there), empty statements too.
fn label_candidates(prog: &Program) -> Vec<(u32, bool)> {
    fn walk(block: &[Stmt], in_case_arm: bool, out: &mut Vec<(u32, bool)>) {
        for s in block {
            let preferred = match &s.kind {
                StmtKind::If { .. }
                | StmtKind::Case { .. }
                | StmtKind::For { .. }
                | StmtKind::While { .. }
                | StmtKind::Repeat { .. }
                | StmtKind::FbCall { .. }
                | StmtKind::CallStmt(_) => true,
                StmtKind::Assign { value, .. } => expr_has_call(value),
                _ => false,
            };
            if !in_case_arm && !matches!(s.kind, StmtKind::Empty) {
                out.push((s.id, preferred));
            }
            match &s.kind {
                StmtKind::If {
                    then_,
                    elsifs,
                    else_,
                    ..
                } => {
                    walk(then_, false, out);
                    for (_, b) in elsifs {
                        walk(b, false, out);
                    }
                    if let Some(b) = else_ {
                        walk(b, false, out);
                    }
                }
                StmtKind::Case { arms, else_, .. } => {
                    for (_, b) in arms {
                        walk(b, true, out);
                    }
                    if let Some(b) = else_ {
                        walk(b, true, out);
                    }
                }
                StmtKind::For { body, .. }
                | StmtKind::While { body, .. }
                | StmtKind::Repeat { body, .. } => walk(body, false, out),
                _ => {}
            }
        }
    }
    let mut out = Vec::new();
    for p in &prog.pous {
        walk(&p.body, false, &mut out);
    }
    out
}

pub fn labelled_statements(prog: &Program, cfg: &TaskCfg) -> BTreeSet<u32> {
    let cands = label_candidates(prog);
    let preferred: Vec<u32> = cands.iter().filter(|c| c.1).map(|c| c.0).collect();
    let mut out = BTreeSet::new();
    for l in &cfg.labels {
        if l.prefer && !preferred.is_empty() {
            out.insert(preferred[(l.idx as usize * preferred.len()) >> 16]);
        } else if !cands.is_empty() {
            out.insert(cands[(l.idx as usize * cands.len()) >> 16].0);
        }
    }
    out
}

/// Printed source with our own CONFIGURATION and the labels. Returns the source and, per
/// statement id, (offset of the statement's first token, 0-based line); the Label statement
/// around statement `id` is reported under `LABEL_BASE + id` (it starts at the label).
pub fn wrapped_source(prog: &Program, cfg: &TaskCfg) -> (String, BTreeMap<u32, (u32, u32)>) {
    let printed = print_program(prog, PrintOpts::default());
    let labelled = labelled_statements(prog, cfg);
    // insert the labels back to front so that earlier offsets stay valid while editing
    let mut labelled_src = printed.source.clone();
    let mut by_offset: Vec<(u32, u32)> = labelled
        .iter()
        .filter_map(|id| printed.stmt_pos.get(id).map(|p| (p.offset, *id)))
        .collect();
    by_offset.sort_unstable();
    for (offset, id) in by_offset.iter().rev() {
        labelled_src.insert_str(*offset as usize, &format!("L{id}: "));
    }
    let shift_before = |offset: u32| -> u32 {
        by_offset
            .iter()
            .filter(|(o, _)| *o < offset)
            .map(|(_, id)| format!("L{id}: ").len() as u32)
            .sum()
    };
    let mut src = labelled_src;
    let mut globals_block = String::new();
    if let Some(at) = src.find("\nCONFIGURATION Conf\n") {
        let conf = src[at + 1..].to_string();
        src.truncate(at + 1);
        for line in conf.lines().skip(1) {
            let t = line.trim_start();
            if t.starts_with("PROGRAM ") || t.starts_with("END_CONFIGURATION") {
                break;
            }
            globals_block.push_str(line);
            globals_block.push('\n');
        }
    }
    if cfg.wrap {
        src.push_str("CONFIGURATION Conf\n");
        src.push_str(&globals_block);
        for t in 0..cfg.ntasks {
            src.push_str(&format!(
                "  TASK T{t} (INTERVAL := T#1ms, PRIORITY := {});\n",
                cfg.prio[t]
            ));
        }
        for i in 0..cfg.ninst {
            let with = match cfg.task_of[i] {
                Some(t) => format!(" WITH T{t}"),
                None => String::new(),
            };
            src.push_str(&format!(
                "  PROGRAM {}{} : {};\n",
                cfg.instance_name(i),
                with,
                program_name(i)
            ));
        }
        src.push_str("END_CONFIGURATION\n");
    }
    let mut pos: BTreeMap<u32, (u32, u32)> = BTreeMap::new();
    for (id, p) in &printed.stmt_pos {
        let base = p.offset + shift_before(p.offset);
        if labelled.contains(id) {
            pos.insert(LABEL_BASE + *id, (base, p.line));
            pos.insert(*id, (base + format!("L{id}: ").len() as u32, p.line));
        } else {
            pos.insert(*id, (base, p.line));
        }
    }
    (src, pos)
}

/// Inputs of the run: the stgen trace with the instance renamed, every clock step at least
/// one task INTERVAL (so that every task is due in every cycle), repeated.
pub fn run_inputs(trace: &Trace, cfg: &TaskCfg) -> Vec<CycleInput> {
    let mut one = Vec::new();
    for c in trace {
        let mut c = c.clone();
        for w in &mut c.writes {
            if w.instance == "Main" {
                w.instance = cfg.instance_name(0);
            }
        }
        c.dt_ns = c.dt_ns.max(1_000_000);
        one.push(c);
    }
    let mut all = Vec::new();
    for _ in 0..cfg.repeat.max(1) {
        all.extend(one.iter().cloned());
    }
    all
}

pub const MAX_POSITIONS: usize = 6_000;

/// `extra`: additional whole-variable writes applied before the cycle with the given index,
/// after the trace's own writes (the effect a user write queued through the debugger in the
/// cycle before must have: it is applied at the cycle boundary).
pub fn prepare(
    base: &Program,
    trace: &Trace,
    cfg: &TaskCfg,
    extra: &[(usize, InputWrite)],
) -> Prep {
    let (decl, ranges) = match wrap_program(base, trace, cfg) {
        Ok(x) => x,
        Err(e) => return Prep::Internal(e),
    };
    let (source, printed_pos) = wrapped_source(&decl, cfg);
    let mut inputs = run_inputs(trace, cfg);
    for (c, w) in extra {
        if let Some(input) = inputs.get_mut(*c) {
            input.writes.push(w.clone());
        }
    }

    // ---- empty statements have no hook call in the runtime (lowering drops them)
    let mut empty: BTreeSet<u32> = BTreeSet::new();
    let mut inst_of_stmt: BTreeMap<u32, usize> = BTreeMap::new();
    for p in &decl.pous {
        walk_stmts(&p.body, &mut |s| {
            if matches!(s.kind, StmtKind::Empty) {
                empty.insert(s.id);
            }
        });
    }
    for (i, (lo, hi)) in ranges.iter().enumerate() {
        let pname = program_name(i);
        if let Some(p) = decl.pou(&pname) {
            walk_stmts(&p.body, &mut |s| {
                debug_assert!(s.id >= *lo && s.id <= *hi);
                inst_of_stmt.insert(s.id, i);
            });
        }
    }

    // ---- compile; statement locations and thread ids
    let mut real = match catch(|| Real::compile(&source)) {
        Ok(Ok(r)) => r,
        Ok(Err(e)) => {
            let first: String = e.lines().next().unwrap_or("").chars().take(60).collect();
            if let Ok(dir) = std::env::var("C17_DEBUG_DIR") {
                let name = format!(
                    "{dir}/rej-{:016x}.st",
                    crate::engine::digest64(source.as_bytes())
                );
                let _ = std::fs::write(name, format!("(* {e} *)\n{source}"));
            }
            return Prep::Skip(format!("rejected:{first}"));
        }
        Err(p) => return Prep::Skip(format!("compiler_panicked:{p}")),
    };
    let locations: Vec<(u32, u32)> = real
        .harness
        .runtime()
        .statement_locations(0)
        .map(|l| l.iter().map(|s| (s.start, s.end)).collect())
        .unwrap_or_default();
    let by_start: BTreeMap<u32, u32> = locations.iter().copied().collect();
    let mut loc_of = BTreeMap::new();
    let mut stmt_at = BTreeMap::new();
    let mut line_of = BTreeMap::new();
    for (id, (offset, line)) in &printed_pos {
        line_of.insert(*id, *line + 1);
        if empty.contains(id) {
            continue;
        }
        match by_start.get(offset) {
            Some(end) => {
                loc_of.insert(*id, (*offset, *end));
                stmt_at.insert(*offset, *id);
            }
            None => {
                return Prep::Internal(format!(
                    "statement {id} (line {}) has no entry in Runtime::statement_locations\n{source}",
                    line + 1
                ))
            }
        }
    }
    let mut inst_thread = Vec::new();
    let background = real.harness.runtime_mut().ensure_background_thread_id();
    let meta = real.harness.runtime().metadata_snapshot();
    for i in 0..cfg.ninst {
        let id = match cfg.task_of[i] {
            Some(t) => meta.task_thread_id(&SmolStr::new(format!("T{t}"))),
            None => background,
        };
        match id {
            Some(id) => inst_thread.push(id),
            None => {
                return Prep::Internal(format!(
                    "no debugger thread id for instance {i} (task {:?})",
                    cfg.task_of[i]
                ))
            }
        }
    }

    // ---- undebugged run (the transparency baseline)
    let mut base_states = Vec::new();
    let mut base_errors = Vec::new();
    let deadline = std::time::Instant::now() + std::time::Duration::from_secs(20);
    real.harness
        .runtime_mut()
        .set_execution_deadline(Some(deadline));
    for input in &inputs {
        if let Err(e) = real.apply(&decl, input) {
            return Prep::Internal(format!("cannot apply inputs: {e}\n{source}"));
        }
        let r = match catch(|| real.harness.cycle()) {
            Ok(r) => r,
            Err(p) => return Prep::Skip(format!("undebugged_run_panicked:{p}")),
        };
        let err = format!("{:?}", r.errors);
        if err.contains("ExecutionTimeout") {
            return Prep::Skip("runtime_deadline_hit".into());
        }
        base_errors.push(err);
        base_states.push(snapshot(&real.harness, &decl));
    }
    drop(real);

    // ---- reference run: instances in execution order
    let order = cfg.exec_order();
    let mut ref_prog = decl.clone();
    ref_prog.instances = order.iter().map(|i| decl.instances[*i].clone()).collect();
    let mut m = match Machine::new(
        &ref_prog,
        RefConfig {
            max_steps: 20_000,
            trace: true,
            trace_digests: false,
            ..RefConfig::default()
        },
    ) {
        Ok(m) => m,
        Err(e) => return Prep::Internal(format!("reference cannot initialise: {e}")),
    };
    let skip = for_control_paths(&decl);
    let mut pos: Vec<Pos> = Vec::new();
    let mut faulted = false;
    let mut max_depth = 0;
    let mut unsettled: Vec<String> = Vec::new();
    for (c, input) in inputs.iter().enumerate() {
        for w in &input.writes {
            if let Err(e) = m.write_input(w) {
                return Prep::Internal(format!("reference input write: {e}"));
            }
        }
        let out = m.cycle();
        if let Some(msg) = m.internal_error.take() {
            return Prep::Internal(format!("{msg}\n{source}"));
        }
        // sticky: after a fault the machine is halted and the unsettled places stay unsettled
        match &out.end {
            CycleEnd::Budget => return Prep::Skip("outside_step_budget".into()),
            CycleEnd::Ok => {
                let real_ok = base_errors[c] == "[]"
                    || (faulted && base_errors[c].contains("ResourceFaulted"));
                if !real_ok {
                    return Prep::Skip("reference_disagrees:fault".into());
                }
            }
            CycleEnd::Fault(f) => {
                if base_errors[c] == "[]" {
                    return Prep::Skip("reference_disagrees:fault".into());
                }
                faulted = true;
                unsettled = f.unsettled.clone();
            }
        }
        // the reference must agree with the undebugged runtime, else its trace is no oracle
        let want = flatten_state(&m.state());
        for (path, wv) in &want {
            // the runtime names a program instance's type after the instance
            if decl
                .instances
                .iter()
                .any(|(inst, _)| path.strip_suffix(".#type") == Some(inst.as_str()))
            {
                continue;
            }
            if skip.iter().any(|s| path_under(path, s))
                || unsettled.iter().any(|s| path_under(path, s))
            {
                continue;
            }
            if base_states[c].get(path) != Some(wv) {
                if let Ok(dir) = std::env::var("C17_DEBUG_DIR") {
                    let _ = std::fs::write(
                        format!(
                            "{dir}/disagree-{:016x}.st",
                            crate::engine::digest64(source.as_bytes())
                        ),
                        format!("(* cycle {} {path} inputs {:?} *)\n{source}", c + 1, inputs),
                    );
                    eprintln!(
                        "reference disagrees, cycle {}: {path}: reference {} runtime {:?}",
                        c + 1,
                        wv.show(),
                        base_states[c].get(path).map(|v| v.show())
                    );
                }
                return Prep::Skip("reference_disagrees:state".into());
            }
        }
        let mut cur_inst: Option<usize> = None;
        for (ev_index, ev) in out.trace.iter().enumerate() {
            if empty.contains(&ev.stmt) {
                continue;
            }
            if ev.depth == 0 {
                cur_inst = inst_of_stmt.get(&ev.stmt).copied();
            }
            let Some(inst) = cur_inst else {
                return Prep::Internal(format!(
                    "trace event of statement {} at depth {} before any program statement",
                    ev.stmt, ev.depth
                ));
            };
            let Some((start, end)) = loc_of.get(&ev.stmt).copied() else {
                return Prep::Internal(format!("executed statement {} has no location", ev.stmt));
            };
            max_depth = max_depth.max(ev.depth);
            // `L: stmt` is a Label statement around the inner one: the hook is called for
            // the label (range from the label to the end of the statement) and again for
            // the inner statement
            if let Some((ls, le)) = loc_of.get(&(LABEL_BASE + ev.stmt)).copied() {
                pos.push(Pos {
                    cycle: c,
                    stmt: LABEL_BASE + ev.stmt,
                    depth: ev.depth,
                    inst,
                    thread: inst_thread[inst],
                    start: ls,
                    end: le,
                    ev: ev_index,
                });
            }
            pos.push(Pos {
                cycle: c,
                stmt: ev.stmt,
                depth: ev.depth,
                inst,
                thread: inst_thread[inst],
                start,
                end,
                ev: ev_index,
            });
        }
        if pos.len() > MAX_POSITIONS {
            return Prep::Skip("trace_too_long".into());
        }
    }
    let mut executed = Vec::new();
    let mut seen = BTreeSet::new();
    for p in &pos {
        if seen.insert(p.stmt) {
            executed.push(p.stmt);
        }
    }
    let mut executed_deep = Vec::new();
    let mut seen_deep = BTreeSet::new();
    for p in &pos {
        if p.depth >= 1 && seen_deep.insert(p.stmt) {
            executed_deep.push(p.stmt);
        }
    }
    let mut threads = Vec::new();
    for i in &order {
        if !threads.contains(&inst_thread[*i]) {
            threads.push(inst_thread[*i]);
        }
    }
    let all_stmts: Vec<u32> = loc_of.keys().copied().collect();
    drop(m);
    Prep::Ready(Box::new(World {
        source,
        decl,
        ref_prog,
        cfg: cfg.clone(),
        inputs,
        pos,
        loc_of,
        stmt_at,
        line_of,
        threads,
        inst_thread,
        base_states,
        base_errors,
        executed,
        executed_deep,
        all_stmts,
        faulted,
        max_depth,
    }))
}

fn observe_value(value: &Value, storage: &VariableStorage, prog: &Program, depth: u32) -> Option<Val> {
    if depth > 8 {
        return None;
    }
    Some(match value {
        Value::Bool(b) => Val::Bool(*b),
        Value::SInt(v) => Val::Int(Elem::SInt, *v as i128),
        Value::Int(v) => Val::Int(Elem::Int, *v as i128),
        Value::DInt(v) => Val::Int(Elem::DInt, *v as i128),
        Value::LInt(v) => Val::Int(Elem::LInt, *v as i128),
        Value::USInt(v) => Val::Int(Elem::USInt, *v as i128),
        Value::UInt(v) => Val::Int(Elem::UInt, *v as i128),
        Value::UDInt(v) => Val::Int(Elem::UDInt, *v as i128),
        Value::ULInt(v) => Val::Int(Elem::ULInt, *v as i128),
        Value::Real(v) => Val::Real(v.to_bits()),
        Value::LReal(v) => Val::LReal(v.to_bits()),
        Value::Time(d) => Val::Time(d.as_nanos()),
        Value::Enum(e) => {
            let TypeDecl::Enum { variants, name } = prog
                .types
                .iter()
                .find(|t| t.name().eq_ignore_ascii_case(&e.type_name))?
            else {
                return None;
            };
            let i = variants
                .iter()
                .position(|v| v.eq_ignore_ascii_case(&e.variant_name))?;
            Val::Enum(name.clone(), i as u32)
        }
        Value::Array(a) => {
            let mut elems = Vec::with_capacity(a.elements.len());
            for e in &a.elements {
                elems.push(observe_value(e, storage, prog, depth + 1)?);
            }
            Val::Array {
                dims: a.dimensions.clone(),
                elems,
            }
        }
        Value::Struct(st) => {
            let mut fields = Vec::with_capacity(st.fields.len());
            for (n, v) in &st.fields {
                fields.push((n.to_string(), observe_value(v, storage, prog, depth + 1)?));
            }
            let ty = prog
                .types
                .iter()
                .find(|t| t.name().eq_ignore_ascii_case(&st.type_name))
                .map(|t| t.name().to_string())
                .unwrap_or_else(|| st.type_name.to_string());
            Val::Struct { ty, fields }
        }
        Value::Instance(id) => {
            let inst = storage.get_instance(*id)?;
            let mut vars = Vec::with_capacity(inst.variables.len());
            for (n, v) in &inst.variables {
                vars.push((n.to_string(), observe_value(v, storage, prog, depth + 1)?));
            }
            let ty = prog
                .pous
                .iter()
                .find(|p| p.name.eq_ignore_ascii_case(&inst.type_name))
                .map(|p| p.name.clone())
                .unwrap_or_else(|| inst.type_name.to_string());
            Val::Fb { ty, vars }
        }
        _ => return None,
    })
}

/// Flatten a storage (e.g. the one of a `DebugSnapshot`) like `rt::snapshot` flattens the
/// runtime's: globals under "G.", program instances under their name. A value outside the
/// generated vocabulary is reported under `<path>.#unobservable`.
pub fn flatten_storage(storage: &VariableStorage, prog: &Program) -> BTreeMap<String, Val> {
    let mut out = BTreeMap::new();
    for (name, value) in storage.globals() {
        let is_instance = prog
            .instances
            .iter()
            .any(|(inst, _)| inst.as_str() == name.as_str());
        let prefix = if is_instance {
            name.to_string()
        } else {
            format!("G.{name}")
        };
        match observe_value(value, storage, prog, 0) {
            Some(v) => flatten(&prefix, &v, &mut out),
            None => {
                out.insert(format!("{prefix}.#unobservable"), Val::Bool(true));
            }
        }
    }
    out
}

fn show_stmt(id: u32) -> String {
    if id >= LABEL_BASE {
        format!("label L{0} of {0}", id - LABEL_BASE)
    } else {
        id.to_string()
    }
}

impl World {
    pub fn has_bp(&self, q: usize, bps: &[(u32, u32)]) -> bool {
        let p = &self.pos[q];
        // the runtime matches a breakpoint when the statement's range overlaps it
        bps.iter().any(|(s, e)| p.start < *e && *s < p.end)
    }

    /// First position >= `from` whose statement range overlaps a breakpoint.
    pub fn first_bp(&self, from: usize, bps: &[(u32, u32)]) -> Option<usize> {
        if bps.is_empty() {
            return None;
        }
        (from..self.pos.len()).find(|q| self.has_bp(*q, bps))
    }

    /// First position >= `from` executed by `thread` at a call depth <= `max_depth`.
    pub fn first_of_thread(&self, from: usize, thread: u32, max_depth: Option<u32>) -> Option<usize> {
        (from..self.pos.len()).find(|q| {
            let p = &self.pos[*q];
            p.thread == thread && max_depth.map(|d| p.depth <= d).unwrap_or(true)
        })
    }

    /// First position of cycle `c` or a later one (`pos.len()` when there is none).
    pub fn first_of_cycle(&self, c: usize) -> usize {
        self.pos
            .iter()
            .position(|p| p.cycle >= c)
            .unwrap_or(self.pos.len())
    }

    /// Does the statement at position `q` enter a call (the next executed statement is deeper)?
    pub fn enters_call(&self, q: usize) -> bool {
        match (self.pos.get(q), self.pos.get(q + 1)) {
            (Some(a), Some(b)) => b.depth > a.depth && b.cycle == a.cycle,
            _ => false,
        }
    }

    /// Simulated time (ns) during cycle `c`.
    pub fn time_in_cycle(&self, c: usize) -> i64 {
        self.inputs
            .iter()
            .take(c + 1)
            .map(|i| i.dt_ns.max(0))
            .fold(0i64, |a, b| a.saturating_add(b))
    }

    /// State of the reference evaluator immediately before the statement at position `q`
    /// executes (static variables only; FOR control variables, instance type names and
    /// everything below an unobservable value excluded by the caller). The reference has no
    /// stepping interface: the cycle is re-run with a step budget that runs out exactly at
    /// the statement (found by bisection; the trace length is monotone in the budget).
    pub fn reference_state_before(&self, q: usize) -> Option<BTreeMap<String, Val>> {
        let target = self.pos.get(q)?;
        let (c, ev) = (target.cycle, target.ev);
        let run = |budget: Option<u64>| -> Option<(usize, u64, BTreeMap<String, Val>)> {
            let mut m = Machine::new(
                &self.ref_prog,
                RefConfig {
                    max_steps: 20_000,
                    trace: true,
                    trace_digests: false,
                    ..RefConfig::default()
                },
            )
            .ok()?;
            for (k, input) in self.inputs.iter().enumerate().take(c + 1) {
                for w in &input.writes {
                    m.write_input(w).ok()?;
                }
                if k == c {
                    if ev == 0 {
                        return Some((0, 0, flatten_state(&m.state())));
                    }
                    if let Some(b) = budget {
                        m.cfg.max_steps = b;
                    }
                }
                let out = m.cycle();
                if m.internal_error.is_some() {
                    return None;
                }
                if k == c {
                    return Some((out.trace.len(), out.steps, flatten_state(&m.state())));
                }
            }
            None
        };
        if ev == 0 {
            return run(None).map(|r| r.2);
        }
        // full cycle: how many ticks are loop iterations
        let (events, steps, _) = run(None)?;
        if events <= ev {
            return None;
        }
        let slack = steps.saturating_sub(events as u64);
        // smallest budget under which the statement itself is reached (its own tick passes);
        // one less is the budget that runs out exactly at the statement, after everything
        // before it - returns from calls and loop bookkeeping included - has happened
        let (mut lo, mut hi) = (ev as u64 + 1, ev as u64 + 1 + slack);
        let mut first = None;
        while lo <= hi {
            let mid = lo + (hi - lo) / 2;
            let (len, _, _) = run(Some(mid))?;
            if len > ev {
                first = Some(mid);
                hi = mid - 1;
            } else {
                lo = mid + 1;
            }
        }
        let (len, _, state) = run(Some(first?.checked_sub(1)?))?;
        (len == ev).then_some(state)
    }

    pub fn for_control_paths(&self) -> Vec<String> {
        for_control_paths(&self.decl)
    }

    pub fn describe(&self, q: usize) -> String {
        let p = &self.pos[q];
        format!(
            "trace position {q} (cycle {}, line {}, statement {}, call depth {}, thread {})",
            p.cycle + 1,
            self.line_of.get(&p.stmt).copied().unwrap_or(0),
            show_stmt(p.stmt),
            p.depth,
            p.thread
        )
    }

    pub fn describe_start(&self, start: Option<u32>) -> String {
        match start {
            None => "<no location>".into(),
            Some(s) => match self.stmt_at.get(&s) {
                Some(id) => format!(
                    "line {} (statement {})",
                    self.line_of.get(id).copied().unwrap_or(0),
                    show_stmt(*id)
                ),
                None => format!("offset {s} (not the start of a statement)"),
            },
        }
    }
}
