//! Command scripts of C17 (pure data; generated from a choice tape).

use serde::{Deserialize, Serialize};

use crate::engine::tape::Reader;

/// Which thread id a command names.
#[derive(Clone, Copy, Debug, PartialEq, Eq, Serialize, Deserialize)]
pub enum ThreadSel {
    /// `None` argument (the debugger falls back to its current thread).
    Unspecified,
    /// The thread the last stop was reported for.
    Current,
    /// The k-th thread of the configuration (may coincide with the current one).
    Other(u8),
    /// A thread id no task has.
    Bogus,
}

#[derive(Clone, Copy, Debug, PartialEq, Eq, Serialize, Deserialize)]
pub enum Resume {
    Continue,
    StepIn(ThreadSel),
    StepOver(ThreadSel),
    StepOut(ThreadSel),
}

impl Reaction {
    pub fn resume_for(&self, pause_stop: bool) -> Resume {
        match (pause_stop, self.on_pause) {
            (true, Some(r)) => r,
            _ => self.resume,
        }
    }
}

impl Resume {
    pub fn name(&self) -> &'static str {
        match self {
            Resume::Continue => "continue",
            Resume::StepIn(_) => "step_in",
            Resume::StepOver(_) => "step_over",
            Resume::StepOut(_) => "step_out",
        }
    }
    pub fn sel(&self) -> Option<ThreadSel> {
        match self {
            Resume::Continue => None,
            Resume::StepIn(s) | Resume::StepOver(s) | Resume::StepOut(s) => Some(*s),
        }
    }
}

/// Breakpoint selector: index into the executed statements (first-execution order) or into
/// all statements (so that never-executed statements inside untaken branches are hit too).
#[derive(Clone, Copy, Debug, PartialEq, Eq, Serialize, Deserialize)]
pub struct BpSel {
    pub executed: bool,
    pub idx: u16,
    /// Index into the statements executed at call depth >= 1 (bodies of called FUNCTIONs /
    /// FUNCTION_BLOCKs); falls back to the executed statements when there is none.
    #[serde(default)]
    pub deep: bool,
}

#[derive(Clone, Debug, PartialEq, Eq, Serialize, Deserialize)]
pub enum BpEdit {
    Keep,
    Set(Vec<BpSel>),
    Clear,
}

/// A user write queued through the debugger (`enqueue_*_write`) while stopped.
#[derive(Clone, Copy, Debug, PartialEq, Eq, Serialize, Deserialize)]
pub struct WriteSel {
    pub target: u16,
    pub value: u32,
}

/// What the controller does when a stop notification arrives.
#[derive(Clone, Debug, PartialEq, Eq, Serialize, Deserialize)]
pub struct Reaction {
    pub bps: BpEdit,
    /// A pause request issued while stopped (must be without effect).
    pub noise_pause: Option<ThreadSel>,
    #[serde(default)]
    pub write: Option<WriteSel>,
    pub resume: Resume,
    /// Used instead of `resume` when the stop being answered is a pause or entry stop.
    #[serde(default)]
    pub on_pause: Option<Resume>,
    /// Racy driver only: delay before reacting.
    #[serde(default)]
    pub delay: Delay,
    /// Lock-step / hook search, when the answer is `continue`: issue `pause` immediately
    /// after it. The parked hook then normally wakes up already paused again and reports the
    /// pause stop from inside its wait loop, at the statement it was stopped at.
    #[serde(default)]
    pub then_pause: bool,
}

#[derive(Clone, Copy, Debug, PartialEq, Eq, Serialize, Deserialize, Default)]
pub enum Delay {
    /// As early as possible.
    #[default]
    None,
    Spin(u32),
    Yield(u32),
    SleepUs(u32),
}

impl Delay {
    pub fn wait(&self) {
        match self {
            Delay::None => {}
            Delay::Spin(n) => {
                for _ in 0..*n {
                    std::hint::spin_loop();
                }
            }
            Delay::Yield(n) => {
                for _ in 0..*n {
                    std::thread::yield_now();
                }
            }
            Delay::SleepUs(n) => std::thread::sleep(std::time::Duration::from_micros(*n as u64)),
        }
    }
    fn generate(r: &mut Reader) -> Delay {
        match r.weighted(&[3, 3, 2, 2]) {
            0 => Delay::None,
            1 => Delay::Spin([10u32, 100, 1_000, 5_000, 20_000][r.pick(5)]),
            2 => Delay::Yield(1 + r.pick(4) as u32),
            _ => Delay::SleepUs([1u32, 20, 60, 150, 400][r.pick(5)]),
        }
    }
}

/// A command issued between two cycles (the cycle thread waits at the boundary, so the
/// command meets a *running* debugger at a known point of the trace).
#[derive(Clone, Debug, PartialEq, Eq, Serialize, Deserialize)]
pub enum BoundaryCmd {
    Pause(ThreadSel),
    /// `DebugControl::pause_entry` (stop reason Entry).
    Entry,
    SetBps(Vec<BpSel>),
    ClearBps,
    Continue,
    /// A step command while running (not predicted).
    Step(Resume),
}

/// Deterministic script: commands are only issued before the cycle thread starts, between two
/// cycles and in reaction to a stop notification.
#[derive(Clone, Debug, PartialEq, Eq, Serialize, Deserialize)]
pub struct LockScript {
    pub bps: Vec<BpSel>,
    pub pause: Option<ThreadSel>,
    /// A step command issued before the start (while running).
    pub early_step: Option<Resume>,
    pub reactions: Vec<Reaction>,
    /// `pause_entry()` before the start instead of `pause`.
    #[serde(default)]
    pub entry: bool,
    /// `between[k]`: commands issued after cycle k+1 has completed.
    #[serde(default)]
    pub between: Vec<Vec<BoundaryCmd>>,
    /// Hook-level driver only: commands issued between two hook calls.
    #[serde(default)]
    pub gates: Vec<(GateSel, Vec<BoundaryCmd>)>,
}

/// Where a statement-level gate sits: before the hook call of a trace position.
#[derive(Clone, Copy, Debug, PartialEq, Eq, Serialize, Deserialize)]
pub struct GateSel {
    /// Among the positions that are the first statement of a callee (the window between the
    /// hook of a call statement and the hook of the callee's first statement).
    pub after_call: bool,
    pub idx: u16,
}

#[derive(Clone, Debug, PartialEq, Eq, Serialize, Deserialize)]
pub enum RacerCmd {
    Pause(ThreadSel),
    SetBps(Vec<BpSel>),
    ClearBps,
    Resume(Resume),
}

/// Racy script: the controller reacts to stops, a second thread fires `racer` commands at
/// generated points in real time.
#[derive(Clone, Debug, PartialEq, Eq, Serialize, Deserialize)]
pub struct RacyScript {
    pub bps: Vec<BpSel>,
    pub pause: Option<ThreadSel>,
    pub reactions: Vec<Reaction>,
    pub racer: Vec<(Delay, RacerCmd)>,
    pub reps: u32,
}

impl RacyScript {
    /// Does the racer issue continue/step commands (then stop/resume accounting is only
    /// possible as a count)?
    pub fn racer_resumes(&self) -> bool {
        self.racer
            .iter()
            .any(|(_, c)| matches!(c, RacerCmd::Resume(_)))
    }
}

fn gen_sel(r: &mut Reader) -> ThreadSel {
    match r.weighted(&[4, 3, 2, 1]) {
        0 => ThreadSel::Current,
        1 => ThreadSel::Unspecified,
        2 => ThreadSel::Other(r.pick(4) as u8),
        _ => ThreadSel::Bogus,
    }
}

fn gen_bp(r: &mut Reader) -> BpSel {
    let executed = !r.chance(1, 5);
    BpSel {
        executed,
        idx: (r.word() >> 16) as u16,
        deep: false,
    }
}

fn gen_deep_bp(r: &mut Reader) -> BpSel {
    BpSel {
        executed: true,
        idx: (r.word() >> 16) as u16,
        deep: true,
    }
}

fn gen_boundary_pause(r: &mut Reader) -> BoundaryCmd {
    match r.weighted(&[4, 4, 1, 1]) {
        0 => BoundaryCmd::Pause(ThreadSel::Unspecified),
        1 => BoundaryCmd::Pause(ThreadSel::Other(r.pick(4) as u8)),
        2 => BoundaryCmd::Entry,
        _ => BoundaryCmd::Pause(ThreadSel::Bogus),
    }
}

/// Commands for the cycle boundaries; `p_num/p_den`: chance of a pause at a boundary.
fn gen_between(r: &mut Reader, p_num: u32, p_den: u32, others: bool) -> Vec<Vec<BoundaryCmd>> {
    let n = r.pick(9);
    let mut out = Vec::new();
    for _ in 0..n {
        let mut cmds = Vec::new();
        if others {
            match r.weighted(&[12, 2, 1, 1, 1]) {
                1 => cmds.push(BoundaryCmd::SetBps(gen_bps(r, &[0, 3, 2, 1]))),
                2 => cmds.push(BoundaryCmd::ClearBps),
                3 => cmds.push(BoundaryCmd::Continue),
                4 => cmds.push(BoundaryCmd::Step(gen_resume(r, &[2, 2, 2, 0]))),
                _ => {}
            }
        }
        if r.chance(p_num, p_den) {
            cmds.push(gen_boundary_pause(r));
        }
        out.push(cmds);
    }
    out
}

fn gen_bps(r: &mut Reader, weights: &[u32]) -> Vec<BpSel> {
    let n = r.weighted(weights);
    (0..n).map(|_| gen_bp(r)).collect()
}

fn gen_resume(r: &mut Reader, weights: &[u32; 4]) -> Resume {
    match r.weighted(weights) {
        0 => Resume::StepIn(gen_sel(r)),
        1 => Resume::StepOver(gen_sel(r)),
        2 => Resume::StepOut(gen_sel(r)),
        _ => Resume::Continue,
    }
}

fn gen_reaction(r: &mut Reader, weights: &[u32; 4], racy: bool, writes: bool) -> Reaction {
    let bps = match r.weighted(&[16, 5, 1]) {
        0 => BpEdit::Keep,
        1 => BpEdit::Set(gen_bps(r, &[0, 3, 3, 2])),
        _ => BpEdit::Clear,
    };
    let noise_pause = if r.chance(1, 6) { Some(gen_sel(r)) } else { None };
    let write = if writes && r.chance(1, 3) {
        Some(WriteSel {
            target: (r.word() >> 16) as u16,
            value: r.word(),
        })
    } else {
        None
    };
    let resume = gen_resume(r, weights);
    let on_pause = if racy && r.chance(1, 2) {
        Some(match r.weighted(&[5, 3]) {
            0 => Resume::StepOver(ThreadSel::Current),
            _ => Resume::StepOut(ThreadSel::Current),
        })
    } else {
        None
    };
    let delay = if racy { Delay::generate(r) } else { Delay::None };
    Reaction {
        bps,
        noise_pause,
        write,
        resume,
        on_pause,
        delay,
        then_pause: !racy && !writes && r.chance(1, 5),
    }
}

impl LockScript {
    pub fn generate(r: &mut Reader) -> LockScript {
        // flavour: mixed | step-in walk over the whole trace | breakpoints + continue |
        // steps issued from pause stops
        let flavour = r.weighted(&[7, 2, 2, 5]);
        let writes = r.chance(1, 4);
        match flavour {
            3 => {
                // A stop deep inside a call, continue, a pause at the next cycle boundary
                // (it lands on a statement at depth 0), then step-over / step-out / step-in:
                // the origin of the step is a pause (or entry) stop.
                let mut bps: Vec<BpSel> = (0..1 + r.pick(3)).map(|_| gen_deep_bp(r)).collect();
                if r.chance(1, 4) {
                    bps.push(gen_bp(r));
                }
                let n = 3 + r.pick(22);
                let reactions = (0..n)
                    .map(|_| {
                        let bps = match r.weighted(&[14, 2, 2]) {
                            0 => BpEdit::Keep,
                            1 => BpEdit::Set((0..1 + r.pick(2)).map(|_| gen_deep_bp(r)).collect()),
                            _ => BpEdit::Clear,
                        };
                        Reaction {
                            bps,
                            noise_pause: if r.chance(1, 8) { Some(gen_sel(r)) } else { None },
                            write: None,
                            resume: gen_resume(r, &[1, 2, 1, 10]),
                            on_pause: Some(match r.weighted(&[6, 4, 2]) {
                                0 => Resume::StepOver(if r.chance(1, 6) {
                                    gen_sel(r)
                                } else {
                                    ThreadSel::Current
                                }),
                                1 => Resume::StepOut(if r.chance(1, 6) {
                                    gen_sel(r)
                                } else {
                                    ThreadSel::Current
                                }),
                                _ => Resume::StepIn(ThreadSel::Current),
                            }),
                            delay: Delay::None,
                            then_pause: r.chance(1, 6),
                        }
                    })
                    .collect();
                LockScript {
                    bps,
                    pause: None,
                    early_step: None,
                    reactions,
                    entry: false,
                    between: gen_between(r, 3, 4, false),
                    gates: vec![],
                }
            }
            1 => {
                let n = 8 + r.pick(72);
                LockScript {
                    entry: r.chance(1, 4),
                    between: vec![],
                    gates: vec![],
                    bps: vec![],
                    pause: Some(ThreadSel::Unspecified),
                    early_step: None,
                    reactions: (0..n)
                        .map(|_| Reaction {
                            bps: BpEdit::Keep,
                            noise_pause: None,
                            write: None,
                            resume: Resume::StepIn(if r.chance(1, 8) {
                                gen_sel(r)
                            } else {
                                ThreadSel::Current
                            }),
                            on_pause: None,
                            delay: Delay::None,
                            then_pause: false,
                        })
                        .collect(),
                }
            }
            2 => {
                let bps = gen_bps(r, &[0, 2, 3, 3, 2]);
                let n = 2 + r.pick(20);
                LockScript {
                    bps,
                    pause: None,
                    early_step: None,
                    reactions: (0..n)
                        .map(|_| gen_reaction(r, &[1, 1, 1, 8], false, writes))
                        .collect(),
                    entry: false,
                    between: if writes { vec![] } else { gen_between(r, 1, 4, true) },
                    gates: vec![],
                }
            }
            _ => {
                let mut bps = gen_bps(r, &[1, 3, 4, 3, 2]);
                let pause = match r.weighted(&[5, 3, 2, 1]) {
                    0 => None,
                    1 => Some(ThreadSel::Unspecified),
                    2 => Some(ThreadSel::Other(r.pick(4) as u8)),
                    _ => Some(ThreadSel::Bogus),
                };
                let early_step = if r.chance(1, 10) {
                    Some(gen_resume(r, &[2, 2, 2, 0]))
                } else {
                    None
                };
                if bps.is_empty() && pause.is_none() && early_step.is_none() {
                    bps.push(BpSel {
                        executed: true,
                        idx: 0,
                        deep: false,
                    });
                }
                let n = 1 + r.pick(24);
                let entry = pause.is_none() && early_step.is_none() && r.chance(1, 8);
                LockScript {
                    bps,
                    pause,
                    early_step,
                    reactions: (0..n)
                        .map(|_| gen_reaction(r, &[4, 4, 3, 2], false, writes))
                        .collect(),
                    entry,
                    between: if writes { vec![] } else { gen_between(r, 1, 3, true) },
                    gates: vec![],
                }
            }
        }
    }
}

impl LockScript {
    /// Script for the hook-level driver: commands at statement-level gates while the
    /// "program" runs (steps, pauses, continue, breakpoint edits), answered stops as usual.
    pub fn generate_hook(r: &mut Reader) -> LockScript {
        let bps = if r.chance(1, 2) {
            gen_bps(r, &[0, 3, 2, 1])
        } else {
            vec![]
        };
        let ngates = 1 + r.pick(8);
        let mut gates = Vec::new();
        for _ in 0..ngates {
            let sel = GateSel {
                after_call: r.chance(3, 5),
                idx: (r.word() >> 16) as u16,
            };
            let cmd = match r.weighted(&[8, 6, 2, 3, 1, 1, 1]) {
                0 => BoundaryCmd::Step(Resume::StepOver(gate_sel(r))),
                1 => BoundaryCmd::Step(Resume::StepOut(gate_sel(r))),
                2 => BoundaryCmd::Step(Resume::StepIn(gate_sel(r))),
                3 => gen_boundary_pause(r),
                4 => BoundaryCmd::Continue,
                5 => BoundaryCmd::SetBps(gen_bps(r, &[0, 3, 2, 1])),
                _ => BoundaryCmd::ClearBps,
            };
            gates.push((sel, vec![cmd]));
        }
        let n = 2 + r.pick(16);
        let reactions = (0..n)
            .map(|_| gen_reaction(r, &[2, 3, 2, 8], false, false))
            .collect();
        LockScript {
            bps,
            pause: None,
            early_step: None,
            reactions,
            entry: false,
            between: vec![],
            gates,
        }
    }
}

fn gate_sel(r: &mut Reader) -> ThreadSel {
    match r.weighted(&[6, 3, 1]) {
        0 => ThreadSel::Unspecified,
        1 => ThreadSel::Other(r.pick(4) as u8),
        _ => ThreadSel::Bogus,
    }
}

impl RacyScript {
    pub fn generate(r: &mut Reader, max_reps: u32) -> RacyScript {
        let bps = gen_bps(r, &[1, 3, 3, 2, 1]);
        let pause = if r.chance(1, 5) {
            Some(gen_sel(r))
        } else {
            None
        };
        // does the racer also resume? (exact stop/resume accounting needs a racer that
        // only pauses and edits breakpoints)
        let resumes = r.chance(1, 2);
        let nreact = 2 + r.pick(14);
        let reactions = (0..nreact)
            .map(|_| gen_reaction(r, &[3, 3, 2, 4], true, false))
            .collect();
        let nracer = 1 + r.pick(16);
        let mut racer = Vec::new();
        for _ in 0..nracer {
            let d = Delay::generate(r);
            let w: [u32; 4] = if resumes { [5, 2, 1, 5] } else { [6, 2, 1, 0] };
            let cmd = match r.weighted(&w) {
                0 => RacerCmd::Pause(match r.weighted(&[5, 2, 1]) {
                    0 => ThreadSel::Unspecified,
                    1 => ThreadSel::Other(r.pick(4) as u8),
                    _ => ThreadSel::Bogus,
                }),
                1 => RacerCmd::SetBps(gen_bps(r, &[0, 3, 2, 1])),
                2 => RacerCmd::ClearBps,
                _ => RacerCmd::Resume(gen_resume(r, &[3, 3, 2, 4])),
            };
            racer.push((d, cmd));
        }
        let reps = 50 + r.pick((max_reps.saturating_sub(50) + 1) as usize) as u32;
        RacyScript {
            bps,
            pause,
            reactions,
            racer,
            reps,
        }
    }
}
