//! C17 drivers: the cycle thread, the lock-step controller with its stop model, and the racy
//! driver (controller + a second command thread).

use std::collections::BTreeMap;
use std::sync::atomic::{AtomicBool, AtomicI64, AtomicU64, Ordering};
use std::sync::mpsc::{channel, Receiver, RecvTimeoutError, Sender, TryRecvError};
use std::sync::{Arc, Barrier};
use std::thread::JoinHandle;
use std::time::Duration;

use trust_runtime::debug::{
    ControlAction, DebugBreakpoint, DebugControl, DebugHook, DebugStop, DebugStopReason,
    SourceLocation,
};

use trust_runtime::eval::EvalContext;
use trust_runtime::memory::VariableStorage;
use trust_runtime::value::{DateTimeProfile, Duration as RtDuration, Value};

use crate::engine::catch;
use crate::stgen::ast::*;
use crate::stgen::rt::{snapshot, val_to_value, Real};

use super::script::*;
use super::world::World;

/// "No command sequence deadlocks the cycle" is judged by progress, not by duration: after a
/// resume the controller waits for the next stop notification or the end of the run; while
/// it waits it samples a progress token (cycles completed, last statement location and call
/// depth seen by the hook) and the scheduler state of the cycle thread. The run is called
/// wedged when the token has not moved AND the cycle thread was asleep (blocked, not merely
/// waiting for a CPU) at `ASLEEP_SAMPLES` consecutive samples 100 ms apart, or - last resort -
/// when the token has not moved for `NO_PROGRESS` whatever the thread state. Normal duration
/// of the awaited event: microseconds to milliseconds.
pub const ASLEEP_SAMPLES: u32 = 150;
pub const NO_PROGRESS: Duration = Duration::from_secs(180);
const SAMPLE: Duration = Duration::from_millis(100);
const BOGUS_THREAD: u32 = 99;

/// What the cycle thread publishes about itself.
pub struct Shared {
    pub finished: AtomicBool,
    pub tid: AtomicI64,
    pub cycles: AtomicU64,
}

impl Shared {
    fn new() -> Arc<Shared> {
        Arc::new(Shared {
            finished: AtomicBool::new(false),
            tid: AtomicI64::new(0),
            cycles: AtomicU64::new(0),
        })
    }
    /// Some(true): the cycle thread is blocked (sleeping); Some(false): running or runnable;
    /// None: unknown (thread gone, /proc unreadable).
    fn asleep(&self) -> Option<bool> {
        let tid = self.tid.load(Ordering::SeqCst);
        if tid <= 0 {
            return None;
        }
        let text = std::fs::read_to_string(format!("/proc/self/task/{tid}/stat")).ok()?;
        let rest = &text[text.rfind(')')? + 1..];
        let state = rest.split_whitespace().next()?;
        Some(matches!(state, "S" | "D"))
    }
}

pub enum Event {
    Stop(DebugStop),
    Completed,
    Wedged(String),
}

/// Wait for the next stop notification or the end of the run (see `ASLEEP_SAMPLES`).
pub fn await_event(rx: &Receiver<DebugStop>, control: &DebugControl, shared: &Shared) -> Event {
    let token = |c: &DebugControl| {
        (
            shared.cycles.load(Ordering::SeqCst),
            c.last_location().map(|l| (l.start, l.end)),
            c.last_call_depth(),
        )
    };
    let mut last = None;
    let mut asleep_samples = 0u32;
    let mut since = std::time::Instant::now();
    loop {
        match rx.recv_timeout(SAMPLE) {
            Ok(s) => return Event::Stop(s),
            Err(RecvTimeoutError::Disconnected) => return Event::Completed,
            Err(RecvTimeoutError::Timeout) => {
                let now = match catch(|| token(control)) {
                    Ok(t) => Some(t),
                    Err(_) => None,
                };
                if now != last || last.is_none() {
                    last = now;
                    asleep_samples = 0;
                    since = std::time::Instant::now();
                    continue;
                }
                if shared.asleep() == Some(true) {
                    asleep_samples += 1;
                } else {
                    asleep_samples = 0;
                }
                if asleep_samples >= ASLEEP_SAMPLES {
                    return Event::Wedged(format!(
                        "the cycle thread made no progress and was blocked at {ASLEEP_SAMPLES} consecutive samples ({} s)",
                        since.elapsed().as_secs()
                    ));
                }
                if since.elapsed() >= NO_PROGRESS {
                    return Event::Wedged(format!(
                        "the cycle thread made no progress for {} s",
                        NO_PROGRESS.as_secs()
                    ));
                }
            }
        }
    }
}

#[derive(Clone, Debug)]
pub struct StopRec {
    pub reason: DebugStopReason,
    pub start: Option<u32>,
    pub thread: Option<u32>,
}

impl StopRec {
    fn of(s: &DebugStop) -> StopRec {
        StopRec {
            reason: s.reason,
            start: s.location.map(|l| l.start),
            thread: s.thread_id,
        }
    }
}

pub struct CycleOut {
    pub states: Vec<BTreeMap<String, Val>>,
    pub errors: Vec<String>,
    pub frames: usize,
    pub panic: Option<String>,
}

pub struct Summary {
    pub labels: Vec<String>,
    pub nontrivial: bool,
    pub stops: usize,
}

pub enum Outcome {
    Done(Summary),
    /// The awaited event did not arrive and the cycle thread made no progress (`await_event`).
    Wedge(String),
    /// Harness trouble (never a verdict).
    Internal(String),
}

struct ClearSender(DebugControl, Arc<Shared>);
impl Drop for ClearSender {
    fn drop(&mut self) {
        self.1.finished.store(true, Ordering::SeqCst);
        let c = self.0.clone();
        let _ = std::panic::catch_unwind(std::panic::AssertUnwindSafe(move || {
            c.clear_stop_sender()
        }));
    }
}

/// Thread id of the pseudo stop the cycle thread sends at a cycle boundary (lock-step only).
const BOUNDARY_THREAD: u32 = u32::MAX;

fn boundary_of(s: &DebugStop) -> Option<usize> {
    if s.thread_id == Some(BOUNDARY_THREAD) && s.location.is_none() {
        s.breakpoint_generation.map(|k| k as usize)
    } else {
        None
    }
}

/// `cycle_gate` (lock-step): after every cycle but the last the cycle thread reports the
/// boundary through the stop channel and waits for the controller's go, so that commands
/// can be issued to a *running* debugger at a known point of the trace. A dropped go-sender
/// opens the gate for good.
fn spawn_cycle_thread(
    mut real: Real,
    decl: Arc<Program>,
    inputs: Arc<Vec<CycleInput>>,
    control: DebugControl,
    gate: Arc<Barrier>,
    shared: Arc<Shared>,
    cycle_gate: Option<(Sender<DebugStop>, Receiver<()>)>,
) -> std::io::Result<JoinHandle<CycleOut>> {
    std::thread::Builder::new()
        .name("c17-cycle".into())
        .stack_size(8 << 20)
        .spawn(move || {
            // dropping this (also on a panic) closes the stop channel: the controller
            // then sees "disconnected" after the last buffered stop
            shared
                .tid
                .store(unsafe { libc::syscall(libc::SYS_gettid) } as i64, Ordering::SeqCst);
            let progress = shared.clone();
            let _done = ClearSender(control, shared);
            let mut out = CycleOut {
                states: Vec::new(),
                errors: Vec::new(),
                frames: 0,
                panic: None,
            };
            gate.wait();
            let r = catch(|| {
                for input in inputs.iter() {
                    if let Err(e) = real.apply(&decl, input) {
                        out.errors.push(format!("<cannot apply inputs: {e}>"));
                        break;
                    }
                    let r = real.harness.cycle();
                    out.errors.push(format!("{:?}", r.errors));
                    out.states.push(snapshot(&real.harness, &decl));
                    let done = progress.cycles.fetch_add(1, Ordering::SeqCst) as usize;
                    if let Some((tx, go)) = &cycle_gate {
                        if done + 1 < inputs.len() {
                            let _ = tx.send(DebugStop {
                                reason: DebugStopReason::Entry,
                                location: None,
                                thread_id: Some(BOUNDARY_THREAD),
                                breakpoint_generation: Some(done as u64),
                            });
                            let _ = go.recv();
                        }
                    }
                }
                out.frames = real.frames_left();
            });
            if let Err(p) = r {
                out.panic = Some(p);
            }
            out
        })
}

fn location_of(w: &World, stmt: u32) -> Option<SourceLocation> {
    w.loc_of
        .get(&stmt)
        .map(|(s, e)| SourceLocation::new(0, *s, *e))
}

pub fn resolve_bp(w: &World, b: &BpSel) -> Option<u32> {
    let list = if b.deep && !w.executed_deep.is_empty() {
        &w.executed_deep
    } else if b.executed && !w.executed.is_empty() {
        &w.executed
    } else {
        &w.all_stmts
    };
    if list.is_empty() {
        return None;
    }
    Some(list[(b.idx as usize * list.len()) >> 16])
}

fn resolve_bps(w: &World, sels: &[BpSel]) -> Vec<u32> {
    let mut out: Vec<u32> = Vec::new();
    for b in sels {
        if let Some(s) = resolve_bp(w, b) {
            if !out.contains(&s) {
                out.push(s);
            }
        }
    }
    out
}

fn set_bps(control: &DebugControl, w: &World, stmts: &[u32]) -> Vec<(u32, u32)> {
    let locs: Vec<SourceLocation> = stmts.iter().filter_map(|s| location_of(w, *s)).collect();
    control.set_breakpoints_for_file(0, locs.iter().map(|l| DebugBreakpoint::new(*l)).collect());
    locs.iter().map(|l| (l.start, l.end)).collect()
}

fn resolve_sel(w: &World, sel: ThreadSel, current: Option<u32>) -> Option<u32> {
    match sel {
        ThreadSel::Unspecified => None,
        ThreadSel::Current => current,
        ThreadSel::Other(k) => {
            if w.threads.is_empty() {
                Some(1)
            } else {
                Some(w.threads[k as usize % w.threads.len()])
            }
        }
        ThreadSel::Bogus => Some(BOGUS_THREAD),
    }
}

fn action_of(r: Resume, thread: Option<u32>) -> ControlAction {
    match r {
        Resume::Continue => ControlAction::Continue,
        Resume::StepIn(_) => ControlAction::StepIn(thread),
        Resume::StepOver(_) => ControlAction::StepOver(thread),
        Resume::StepOut(_) => ControlAction::StepOut(thread),
    }
}

// ------------------------------------------------------------------------------ the model

#[derive(Clone, Debug)]
enum Expect {
    /// The next stop is at exactly this position with one of these reasons; `None`: no
    /// further stop, the run completes.
    Exact(Option<(usize, Vec<DebugStopReason>)>),
    /// Not predicted (a step issued while running, a step-over/out naming a thread other
    /// than the stopped one): the stop only has to come later than the previous one.
    Generic,
}

/// Depth clause of the property for the step in flight.
#[derive(Clone, Copy, Debug)]
struct DepthBound {
    limit: u32,
    what: &'static str,
    origin: u32,
    /// Kind of the stop the step was issued from; `None`: issued while running (origin =
    /// the last statement of the stepped thread that the hook saw).
    origin_reason: Option<DebugStopReason>,
}

fn origin_text(b: &DepthBound) -> String {
    match b.origin_reason {
        Some(r) => format!("{} issued from a {:?} stop at call depth {}", b.what, r, b.origin),
        None => format!(
            "{} issued while running, when the last statement of the stepped thread seen by the hook was at call depth {},",
            b.what, b.origin
        ),
    }
}

/// One hypothesis about where the run is: the position of the last stop and what must
/// happen next. There is exactly one hypothesis until a stop had to be mapped without a
/// prediction: a location can occur several times in the trace (loops, cycles, a FUNCTION
/// called from several places), and every occurrence is kept until a later stop rules it out.
#[derive(Clone, Debug)]
struct Hyp {
    #[allow(dead_code)]
    last: Option<usize>,
    /// The candidate stop that is not a breakpoint stop: step, pause or entry.
    other: Option<(usize, DebugStopReason)>,
    /// Not predicted.
    generic: bool,
    /// The next stop cannot lie before this position (positions before it were executed).
    floor: usize,
    /// A pause request is pending (the debugger is in mode Paused while the thread runs):
    /// further pause requests are ignored by the debugger.
    pause_pending: bool,
    bound: Option<DepthBound>,
}

pub struct Model<'w> {
    w: &'w World,
    hyps: Vec<Hyp>,
    /// Possible positions of the current stop (between `observe` and `resume`).
    at: Vec<usize>,
    at_reason: DebugStopReason,
    bps: Vec<(u32, u32)>,
    /// Depth of each thread's last step / breakpoint stop (evidence labels only).
    deep_stop: BTreeMap<u32, u32>,
    pub log: Vec<String>,
    pub steps_at_depth: u32,
    pub cross_thread_steps: u32,
    pub ambiguous_stops: u32,
    /// Step-in commands whose predicted stop is not the very next trace position because the
    /// statements in between belong to other threads (tasks).
    pub step_in_passes_other_threads: u32,
    /// Steps issued from a pause / entry stop: any step, step-over/out, and the shape
    /// "the thread's previous step/breakpoint stop was deeper and the pause landed on a
    /// statement that enters a call".
    pub pause_origin_steps: u32,
    pub pause_origin_over_out: u32,
    pub pause_origin_shape: u32,
    pub boundary_pauses: u32,
    /// Step commands issued while running (at a gate), and those of them (step-over/out)
    /// issued between the hook of a call statement and the hook of the callee's first one.
    pub running_steps: u32,
    pub running_steps_at_call_entry: u32,
    pub continue_then_pause: u32,
    /// Pause stops reported at the position of the previous stop (from the wait loop).
    pub wait_loop_stops: u32,
    last_stop_positions: Vec<usize>,
    pub reasons: BTreeMap<&'static str, u32>,
    pub commands: BTreeMap<&'static str, u32>,
}

fn reason_name(r: DebugStopReason) -> &'static str {
    match r {
        DebugStopReason::Breakpoint => "breakpoint",
        DebugStopReason::Step => "step",
        DebugStopReason::Pause => "pause",
        DebugStopReason::Entry => "entry",
    }
}

fn earliest(cands: &[(Option<usize>, DebugStopReason)]) -> Option<(usize, Vec<DebugStopReason>)> {
    let q = cands.iter().filter_map(|(q, _)| *q).min()?;
    let reasons = cands
        .iter()
        .filter(|(c, _)| *c == Some(q))
        .map(|(_, r)| *r)
        .collect();
    Some((q, reasons))
}

impl<'w> Model<'w> {
    pub fn new(w: &'w World) -> Model<'w> {
        Model {
            w,
            hyps: vec![Hyp {
                last: None,
                other: None,
                generic: false,
                floor: 0,
                pause_pending: false,
                bound: None,
            }],
            at: Vec::new(),
            at_reason: DebugStopReason::Step,
            bps: Vec::new(),
            deep_stop: BTreeMap::new(),
            log: Vec::new(),
            steps_at_depth: 0,
            cross_thread_steps: 0,
            ambiguous_stops: 0,
            step_in_passes_other_threads: 0,
            pause_origin_steps: 0,
            pause_origin_over_out: 0,
            pause_origin_shape: 0,
            boundary_pauses: 0,
            running_steps: 0,
            running_steps_at_call_entry: 0,
            continue_then_pause: 0,
            wait_loop_stops: 0,
            last_stop_positions: Vec::new(),
            reasons: BTreeMap::new(),
            commands: BTreeMap::new(),
        }
    }

    fn lines_of(&self, bps: &[(u32, u32)]) -> String {
        let v: Vec<String> = bps
            .iter()
            .map(|(s, _)| self.w.describe_start(Some(*s)))
            .collect();
        format!("[{}]", v.join(", "))
    }

    fn expect_of(&self, h: &Hyp) -> Expect {
        if h.generic {
            return Expect::Generic;
        }
        Expect::Exact(earliest(&[
            (h.other.map(|o| o.0), h.other.map(|o| o.1).unwrap_or(DebugStopReason::Step)),
            (
                self.w.first_bp(h.floor, &self.bps),
                DebugStopReason::Breakpoint,
            ),
        ]))
    }

    /// Commands issued before the cycle thread starts: breakpoints, then `pause(thread)` or
    /// `pause_entry()`, then possibly a step command (which cancels the pause).
    pub fn start(
        &mut self,
        bps: Vec<(u32, u32)>,
        pause: Option<Option<u32>>,
        entry: bool,
        early_step: bool,
    ) {
        self.log.push(format!(
            "before start: breakpoints {}{}{}",
            self.lines_of(&bps),
            match (entry, pause) {
                (true, _) => ", pause_entry()".to_string(),
                (false, Some(t)) => format!(", pause({t:?})"),
                (false, None) => String::new(),
            },
            if early_step {
                ", then a step command while running"
            } else {
                ""
            }
        ));
        self.bps = bps;
        let first = if self.w.pos.is_empty() { None } else { Some(0) };
        let other = if early_step {
            None
        } else if entry {
            first.map(|q| (q, DebugStopReason::Entry))
        } else {
            match pause {
                None => None,
                Some(None) => first.map(|q| (q, DebugStopReason::Pause)),
                Some(Some(t)) => self
                    .w
                    .first_of_thread(0, t, None)
                    .map(|q| (q, DebugStopReason::Pause)),
            }
        };
        self.hyps = vec![Hyp {
            last: None,
            other,
            generic: early_step,
            floor: 0,
            pause_pending: !early_step && (entry || pause.is_some()),
            bound: None,
        }];
    }

    /// Planning only: the predicted position of the next stop, when there is exactly one
    /// hypothesis and it predicts (`Some(None)`: the run completes).
    pub fn expected_position(&self) -> Option<Option<usize>> {
        match self.hyps.as_slice() {
            [h] => match self.expect_of(h) {
                Expect::Exact(e) => Some(e.map(|(q, _)| q)),
                Expect::Generic => None,
            },
            _ => None,
        }
    }

    /// A stop notification arrived (`cycle`: index of the cycle in progress, known exactly
    /// from the cycle thread's counter): map it to its trace position(s) or say what is wrong.
    /// Returns the earliest possible position.
    pub fn observe(
        &mut self,
        s: &StopRec,
        cycle: Option<usize>,
        exact: Option<usize>,
    ) -> Result<usize, String> {
        *self.reasons.entry(reason_name(s.reason)).or_default() += 1;
        let Some(start) = s.start else {
            return Err(format!(
                "stop notification without a location (reason {:?}, thread {:?})",
                s.reason, s.thread
            ));
        };
        let w = self.w;
        // hook-level driver: the position whose hook call produced the stop is known
        if let Some(e) = exact {
            if w.pos.get(e).map(|p| p.start) != Some(start) {
                return Err(format!(
                    "stop ({:?}) reports {} but was produced by the hook call of {}",
                    s.reason,
                    w.describe_start(Some(start)),
                    if e < w.pos.len() { w.describe(e) } else { format!("position {e}") }
                ));
            }
        }
        let fits = |k: usize| -> bool {
            w.pos[k].start == start
                && cycle.map(|c| w.pos[k].cycle == c).unwrap_or(true)
                && exact.map(|e| k == e).unwrap_or(true)
        };
        let mut at: Vec<usize> = Vec::new();
        let mut complaint: Option<String> = None;
        for h in &self.hyps {
            let from = h.floor;
            let mut found: Vec<usize> = Vec::new();
            let mut why: Option<String> = None;
            match self.expect_of(h) {
                Expect::Exact(None) => {
                    why = Some(format!(
                        "unexpected stop ({:?}) at {}: no breakpoint lies ahead and no pause or step is pending, the run should complete",
                        s.reason,
                        w.describe_start(Some(start))
                    ));
                }
                Expect::Exact(Some((q, reasons))) => {
                    if !fits(q) {
                        let got = (from..w.pos.len()).find(|k| fits(*k));
                        why = Some(format!(
                            "stop ({:?}) at {} [{}], expected at {}",
                            s.reason,
                            w.describe_start(Some(start)),
                            match got {
                                Some(k) => w.describe(k),
                                None => format!(
                                    "no later trace position{} has this location",
                                    match cycle {
                                        Some(c) => format!(" of cycle {}", c + 1),
                                        None => String::new(),
                                    }
                                ),
                            },
                            w.describe(q)
                        ));
                        // the depth clause of the property, stated on its own
                        if let (Some(b), Some(k)) = (h.bound, got) {
                            if s.reason != DebugStopReason::Breakpoint && w.pos[k].depth > b.limit {
                                why = Some(format!(
                                    "{} stopped at call depth {} ({}); expected the stop at {}",
                                    origin_text(&b),
                                    w.pos[k].depth,
                                    w.describe(k),
                                    w.describe(q)
                                ));
                            }
                        }
                    } else if !reasons.contains(&s.reason) {
                        why = Some(format!(
                            "stop at {} has reason {:?}, expected one of {:?}",
                            w.describe(q),
                            s.reason,
                            reasons
                        ));
                    } else {
                        found.push(q);
                    }
                }
                Expect::Generic => {
                    found.extend((from..w.pos.len()).filter(|k| fits(*k)));
                    if found.is_empty() {
                        why = Some(format!(
                            "stop ({:?}) at {}: no trace position after the previous stop{} has this location",
                            s.reason,
                            w.describe_start(Some(start)),
                            match cycle {
                                Some(c) => format!(" in cycle {}", c + 1),
                                None => String::new(),
                            }
                        ));
                    }
                }
            }
            if let Some(b) = h.bound {
                if s.reason != DebugStopReason::Breakpoint {
                    // candidates that violate the clause are no candidates; the clause is
                    // violated when no candidate is left
                    let bad = found.iter().copied().find(|k| w.pos[*k].depth > b.limit);
                    found.retain(|k| w.pos[*k].depth <= b.limit);
                    if let (Some(k), true) = (bad, found.is_empty()) {
                        why = Some(format!(
                            "{} stopped at call depth {} ({})",
                            origin_text(&b),
                            w.pos[k].depth,
                            w.describe(k)
                        ));
                    }
                }
            }
            if complaint.is_none() {
                complaint = why;
            }
            for k in found {
                if !at.contains(&k) {
                    at.push(k);
                }
            }
        }
        if at.is_empty() {
            return Err(complaint.unwrap_or_else(|| "stop matches no hypothesis".into()));
        }
        at.sort_unstable();
        if at.len() > 1 {
            self.ambiguous_stops += 1;
        }
        self.log.push(format!(
            "stop {:?} at {}{} reported thread {:?}",
            s.reason,
            w.describe(at[0]),
            if at.len() > 1 {
                format!(" (or one of {} later occurrences)", at.len() - 1)
            } else {
                String::new()
            },
            s.thread
        ));
        if at.len() == 1 && self.last_stop_positions == at {
            self.wait_loop_stops += 1;
        }
        self.at = at;
        self.at_reason = s.reason;
        self.hyps.clear();
        Ok(self.at[0])
    }

    /// The position of the current stop when there is exactly one candidate.
    pub fn sure_position(&self) -> Option<usize> {
        match self.at.as_slice() {
            [p] => Some(*p),
            _ => None,
        }
    }

    /// Model-only run (planning of user writes): take the predicted position as observed.
    pub fn observe_position(&mut self, q: usize) -> Option<usize> {
        if q >= self.w.pos.len() {
            return None;
        }
        self.at = vec![q];
        self.at_reason = DebugStopReason::Step;
        self.hyps.clear();
        Some(q)
    }

    pub fn set_breakpoints(&mut self, bps: Vec<(u32, u32)>) {
        self.log
            .push(format!("  set breakpoints {}", self.lines_of(&bps)));
        self.bps = bps;
    }

    pub fn note(&mut self, text: String) {
        self.log.push(text);
    }

    /// The controller resumes from the current stop with `cmd` naming `thread`.
    pub fn resume(
        &mut self,
        cmd: Resume,
        thread: Option<u32>,
        stop_thread: Option<u32>,
        then_pause: bool,
    ) {
        let w = self.w;
        *self.commands.entry(cmd.name()).or_default() += 1;
        self.log.push(format!("  {}({:?})", cmd.name(), thread));
        if then_pause && matches!(cmd, Resume::Continue) {
            // continue immediately followed by pause(None): the parked hook normally wakes up
            // paused again and reports the pause from its wait loop at the same statement;
            // if it got away first, the pause stops it at some later statement
            self.log.push("  pause(None) immediately after it".into());
            self.continue_then_pause += 1;
            let mut hyps = Vec::new();
            for p in self.at.iter().copied() {
                hyps.push(Hyp {
                    last: Some(p),
                    other: Some((p, DebugStopReason::Pause)),
                    generic: false,
                    floor: p,
                    pause_pending: true,
                    bound: None,
                });
                hyps.push(Hyp {
                    last: Some(p),
                    other: None,
                    generic: true,
                    floor: p + 1,
                    pause_pending: true,
                    bound: None,
                });
            }
            self.last_stop_positions = self.at.clone();
            self.hyps = hyps;
            self.at.clear();
            return;
        }
        self.last_stop_positions = self.at.clone();
        let origin_reason = self.at_reason;
        let from_pause = matches!(
            origin_reason,
            DebugStopReason::Pause | DebugStopReason::Entry
        );
        let mut hyps = Vec::new();
        for (i, p) in self.at.iter().copied().enumerate() {
            let here = &w.pos[p];
            // the thread the debugger steps: the named one, else its current thread (= the
            // thread of the statement it is stopped at)
            let tt = thread.or(stop_thread).unwrap_or(here.thread);
            let mut bound = None;
            if i == 0 {
                if !matches!(cmd, Resume::Continue) {
                    if here.depth >= 1 {
                        self.steps_at_depth += 1;
                    }
                    if tt != here.thread {
                        self.cross_thread_steps += 1;
                    }
                    if from_pause {
                        self.pause_origin_steps += 1;
                        if tt == here.thread
                            && matches!(cmd, Resume::StepOver(_) | Resume::StepOut(_))
                        {
                            self.pause_origin_over_out += 1;
                            let deeper_before = self
                                .deep_stop
                                .get(&here.thread)
                                .map(|d| *d > here.depth)
                                .unwrap_or(false);
                            if deeper_before && w.enters_call(p) {
                                self.pause_origin_shape += 1;
                            }
                        }
                    }
                }
                if !from_pause {
                    self.deep_stop.insert(here.thread, here.depth);
                }
            }
            let mut generic = false;
            let other = match cmd {
                Resume::Continue => None,
                Resume::StepIn(_) => {
                    let q = w.first_of_thread(p + 1, tt, None);
                    let e = earliest(&[
                        (q, DebugStopReason::Step),
                        (w.first_bp(p + 1, &self.bps), DebugStopReason::Breakpoint),
                    ]);
                    if i == 0 && p + 1 < w.pos.len() && e.as_ref().map(|(q, _)| *q) != Some(p + 1) {
                        self.step_in_passes_other_threads += 1;
                    }
                    q.map(|q| (q, DebugStopReason::Step))
                }
                Resume::StepOver(_) if tt == here.thread => {
                    bound = Some(DepthBound {
                        limit: here.depth,
                        what: "step-over",
                        origin: here.depth,
                        origin_reason: Some(origin_reason),
                    });
                    w.first_of_thread(p + 1, tt, Some(here.depth))
                        .map(|q| (q, DebugStopReason::Step))
                }
                Resume::StepOut(_) if tt == here.thread => {
                    let limit = here.depth.saturating_sub(1);
                    bound = Some(DepthBound {
                        limit,
                        what: "step-out",
                        origin: here.depth,
                        origin_reason: Some(origin_reason),
                    });
                    w.first_of_thread(p + 1, tt, Some(limit))
                        .map(|q| (q, DebugStopReason::Step))
                }
                // step-over / step-out naming another thread: "the depth they were issued
                // from" is not defined by the property
                _ => {
                    generic = true;
                    None
                }
            };
            hyps.push(Hyp {
                last: Some(p),
                other,
                generic,
                floor: p + 1,
                pause_pending: false,
                bound,
            });
        }
        self.hyps = hyps;
        self.at.clear();
    }

    /// The run has reached the gate before trace position `f` without a stop since the last
    /// resume: every hypothesis that expected a stop before `f` is refuted. The executing
    /// thread waits at the gate.
    pub fn gate(&mut self, f: usize, what: &str) -> Result<(), String> {
        let mut complaint = None;
        let mut keep = Vec::new();
        for h in &self.hyps {
            match self.expect_of(h) {
                Expect::Exact(Some((q, reasons))) if q < f => {
                    if complaint.is_none() {
                        complaint = Some(format!(
                            "{what} was reached without the stop ({:?}) expected at {}",
                            reasons,
                            self.w.describe(q)
                        ));
                    }
                }
                _ => {
                    let mut h = h.clone();
                    h.floor = h.floor.max(f);
                    keep.push(h);
                }
            }
        }
        if keep.is_empty() && !self.hyps.is_empty() {
            return Err(complaint.unwrap_or_else(|| format!("no hypothesis left at {what}")));
        }
        self.hyps = keep;
        Ok(())
    }

    /// `pause(thread)` / `pause_entry()` issued at the gate before position `f` while the
    /// program runs: the stop comes at the next statement (of that thread), unless a
    /// breakpoint stops another thread first. A pending step is cancelled.
    pub fn gate_pause(&mut self, f: usize, what: &str, thread: Option<u32>, entry: bool) {
        let reason = if entry {
            DebugStopReason::Entry
        } else {
            DebugStopReason::Pause
        };
        self.log.push(if entry {
            format!("  {what}: pause_entry()")
        } else {
            format!("  {what}: pause({thread:?})")
        });
        self.boundary_pauses += 1;
        let w = self.w;
        for h in &mut self.hyps {
            if h.pause_pending {
                continue; // the debugger ignores a pause request while one is pending
            }
            h.generic = false;
            h.bound = None;
            h.pause_pending = true;
            h.other = match thread {
                None => (f < w.pos.len()).then_some(f),
                Some(t) => w.first_of_thread(f, t, None),
            }
            .map(|q| (q, reason));
        }
    }

    /// `continue` at a gate: cancels a pending pause or step.
    pub fn gate_continue(&mut self, what: &str) {
        self.log.push(format!("  {what}: continue"));
        for h in &mut self.hyps {
            h.generic = false;
            h.bound = None;
            h.pause_pending = false;
            h.other = None;
        }
    }

    /// A step command at the gate before position `f`, while the program runs. Where it
    /// stops is not predicted; what the property says is asserted: step-over / step-out never
    /// stop deeper than the depth they were issued from = the depth of the last statement of
    /// the stepped thread that the hook has seen (what `apply_action` records; when that
    /// thread has not run yet: of the last statement of any thread). `stepped`: the thread
    /// the command names, else the debugger's current thread.
    pub fn gate_step(&mut self, f: usize, what: &str, cmd: Resume, stepped: Option<u32>) {
        let w = self.w;
        self.log.push(format!(
            "  {what}: {}({stepped:?}) while running",
            cmd.name()
        ));
        self.running_steps += 1;
        let own = stepped.and_then(|t| (0..f).rev().find(|k| w.pos[*k].thread == t));
        let origin = match own {
            Some(k) => w.pos[k].depth,
            None if f > 0 => w.pos[f - 1].depth,
            None => 0,
        };
        let bound = match cmd {
            Resume::StepOver(_) => Some(DepthBound {
                limit: origin,
                what: "step-over",
                origin,
                origin_reason: None,
            }),
            Resume::StepOut(_) => Some(DepthBound {
                limit: origin.saturating_sub(1),
                what: "step-out",
                origin,
                origin_reason: None,
            }),
            _ => None,
        };
        if bound.is_some() && f < w.pos.len() && f > 0 && w.pos[f].depth > w.pos[f - 1].depth {
            self.running_steps_at_call_entry += 1;
        }
        for h in &mut self.hyps {
            h.generic = true;
            h.bound = bound;
            h.pause_pending = false;
            h.other = None;
        }
    }

    /// Final "clear breakpoints + continue".
    pub fn finalise(&mut self) {
        self.log
            .push("  clear breakpoints, continue (end of script)".into());
        self.bps.clear();
        self.hyps = self
            .at
            .iter()
            .map(|p| Hyp {
                last: Some(*p),
                other: None,
                generic: false,
                floor: *p + 1,
                pause_pending: false,
                bound: None,
            })
            .collect();
        self.at.clear();
    }

    /// The cycle thread finished.
    pub fn completed(&self) -> Result<(), String> {
        let mut complaint = None;
        for h in &self.hyps {
            match self.expect_of(h) {
                Expect::Exact(Some((q, reasons))) => {
                    if complaint.is_none() {
                        complaint = Some(format!(
                            "the run completed without the stop ({:?}) expected at {}",
                            reasons,
                            self.w.describe(q)
                        ));
                    }
                }
                _ => return Ok(()),
            }
        }
        match complaint {
            Some(c) => Err(c),
            None => Ok(()),
        }
    }
}

// ------------------------------------------------------------------ shared: transparency

pub fn check_transparency(w: &World, out: &CycleOut) -> Result<(), String> {
    if let Some(p) = &out.panic {
        return Err(format!("the cycle thread panicked under the debugger: {p}"));
    }
    if out.errors != w.base_errors {
        let k = out
            .errors
            .iter()
            .zip(w.base_errors.iter())
            .position(|(a, b)| a != b)
            .unwrap_or(out.errors.len().min(w.base_errors.len()));
        return Err(format!(
            "cycle {}: errors under the debugger {} , undebugged {}",
            k + 1,
            out.errors.get(k).cloned().unwrap_or_else(|| "<missing>".into()),
            w.base_errors.get(k).cloned().unwrap_or_else(|| "<missing>".into())
        ));
    }
    for (k, (got, want)) in out.states.iter().zip(w.base_states.iter()).enumerate() {
        if got != want {
            let mut diffs = Vec::new();
            for (path, wv) in want {
                match got.get(path) {
                    Some(gv) if gv == wv => {}
                    Some(gv) => diffs.push(format!(
                        "{path}: under the debugger {} , undebugged {}",
                        gv.show(),
                        wv.show()
                    )),
                    None => diffs.push(format!("{path}: missing under the debugger")),
                }
            }
            for path in got.keys() {
                if !want.contains_key(path) {
                    diffs.push(format!("{path}: only under the debugger"));
                }
            }
            diffs.truncate(6);
            return Err(format!(
                "state after cycle {} differs from the undebugged run:\n  {}",
                k + 1,
                diffs.join("\n  ")
            ));
        }
    }
    if out.states.len() != w.base_states.len() {
        return Err(format!(
            "{} cycles completed under the debugger, {} undebugged",
            out.states.len(),
            w.base_states.len()
        ));
    }
    if out.frames != 0 {
        return Err(format!(
            "{} call frame(s) left on the stack after the run under the debugger",
            out.frames
        ));
    }
    Ok(())
}

/// Bring a (possibly stopped) cycle thread to its end: used after a verdict was reached.
/// Returns the thread's result if it ended; a thread that stays blocked is leaked.
fn wind_down(
    control: &DebugControl,
    rx: &Receiver<DebugStop>,
    shared: &Shared,
    handle: JoinHandle<CycleOut>,
) -> Option<CycleOut> {
    let started = std::time::Instant::now();
    let mut blocked = 0u32;
    loop {
        let _ = catch(|| {
            control.clear_breakpoints();
            // a step notifies the condition variable as well as continue does
            let _ = control.apply_action(ControlAction::StepIn(None));
            let _ = control.apply_action(ControlAction::Continue);
        });
        match rx.recv_timeout(SAMPLE) {
            Ok(_) => continue,
            Err(RecvTimeoutError::Disconnected) => return handle.join().ok(),
            Err(RecvTimeoutError::Timeout) => {
                if handle.is_finished() {
                    return handle.join().ok();
                }
                if shared.asleep() == Some(true) {
                    blocked += 1;
                } else {
                    blocked = 0;
                }
                if blocked >= 30 || started.elapsed() > NO_PROGRESS {
                    // it sits on the condition variable for good: leak it
                    drop(handle);
                    return None;
                }
            }
        }
    }
}

// ------------------------------------------------------------------------------ lock-step

/// A user write issued through the debugger at a stop (resolved by the caller).
#[derive(Clone, Debug)]
pub struct UserWrite {
    /// Program instance name, "" = global.
    pub instance: String,
    pub var: String,
    pub value: Val,
}

/// Breakpoint selectors of a lock-step script resolved to statement ids (once, against the
/// world without user writes, so that they stay put when a write changes later cycles).
#[derive(Clone, Debug)]
pub struct ResolvedLock {
    pub bps: Vec<u32>,
    pub reaction_bps: Vec<Vec<u32>>,
}

pub fn resolve_lock(w: &World, script: &LockScript) -> ResolvedLock {
    ResolvedLock {
        bps: resolve_bps(w, &script.bps),
        reaction_bps: script
            .reactions
            .iter()
            .map(|r| match &r.bps {
                BpEdit::Set(sels) => resolve_bps(w, sels),
                _ => Vec::new(),
            })
            .collect(),
    }
}

/// Which machine executes the trace under the debugger.
#[derive(Clone, Copy, Debug, PartialEq, Eq)]
pub enum Engine {
    /// The real runtime on its own thread (gates at cycle boundaries only).
    Runtime,
    /// A thread that calls `DebugControl`'s statement hook directly, once per position of the
    /// reference trace (gates between any two hook calls; no program state).
    Hook,
}

/// A gate: where the executing thread waits for the controller, and what is issued there.
struct GatePlan {
    /// First position not yet hooked.
    f: usize,
    what: String,
    cmds: Vec<BoundaryCmd>,
}

/// Gates keyed by what the executing thread reports: the index of the finished cycle
/// (runtime engine) or the position about to be hooked (hook engine).
fn gate_plans(w: &World, script: &LockScript, engine: Engine) -> BTreeMap<usize, GatePlan> {
    let mut out: BTreeMap<usize, GatePlan> = BTreeMap::new();
    for (k, cmds) in script.between.iter().enumerate() {
        if k + 1 >= w.inputs.len() {
            break;
        }
        let f = w.first_of_cycle(k + 1);
        let key = match engine {
            Engine::Runtime => k,
            Engine::Hook => f,
        };
        if engine == Engine::Hook && f >= w.pos.len() {
            continue;
        }
        out.entry(key)
            .or_insert_with(|| GatePlan {
                f,
                what: format!("between cycle {} and {}", k + 1, k + 2),
                cmds: Vec::new(),
            })
            .cmds
            .extend(cmds.iter().cloned());
    }
    if engine == Engine::Hook {
        let entries: Vec<usize> = (1..w.pos.len())
            .filter(|f| w.pos[*f].depth > w.pos[*f - 1].depth && w.pos[*f].cycle == w.pos[*f - 1].cycle)
            .collect();
        for (sel, cmds) in &script.gates {
            let f = if sel.after_call && !entries.is_empty() {
                entries[(sel.idx as usize * entries.len()) >> 16]
            } else if w.pos.len() > 1 {
                1 + ((sel.idx as usize * (w.pos.len() - 1)) >> 16)
            } else {
                continue;
            };
            out.entry(f)
                .or_insert_with(|| GatePlan {
                    f,
                    what: format!(
                        "between the hook calls of trace position {} and {} (line {} -> line {}, call depth {} -> {})",
                        f - 1,
                        f,
                        w.line_of.get(&w.pos[f - 1].stmt).copied().unwrap_or(0),
                        w.line_of.get(&w.pos[f].stmt).copied().unwrap_or(0),
                        w.pos[f - 1].depth,
                        w.pos[f].depth
                    ),
                    cmds: Vec::new(),
                })
                .cmds
                .extend(cmds.iter().cloned());
        }
    }
    out
}

/// The executing thread of the hook engine: one hook call per trace position, the
/// debugger's current thread switched like the scheduler does, a gate where the script has one.
fn spawn_hook_thread(
    positions: Arc<Vec<super::world::Pos>>,
    control: DebugControl,
    gate: Arc<Barrier>,
    shared: Arc<Shared>,
    gates: Vec<usize>,
    tx: Sender<DebugStop>,
    go: Receiver<()>,
) -> std::io::Result<JoinHandle<CycleOut>> {
    std::thread::Builder::new()
        .name("c17-hook".into())
        .spawn(move || {
            shared
                .tid
                .store(unsafe { libc::syscall(libc::SYS_gettid) } as i64, Ordering::SeqCst);
            let progress = shared.clone();
            let _done = ClearSender(control.clone(), shared);
            let mut out = CycleOut {
                states: Vec::new(),
                errors: Vec::new(),
                frames: 0,
                panic: None,
            };
            gate.wait();
            let r = catch(|| {
                let mut hook = control.clone();
                let mut current: Option<u32> = None;
                let mut open = false;
                // a storage of our own, so that the snapshot a stop leaves behind can be told
                // apart from every other one: global POS = index of the position being hooked
                let mut storage = VariableStorage::new();
                let registry = trust_hir::types::TypeRegistry::new();
                for (i, p) in positions.iter().enumerate() {
                    if !open && gates.contains(&i) {
                        let _ = tx.send(DebugStop {
                            reason: DebugStopReason::Entry,
                            location: None,
                            thread_id: Some(BOUNDARY_THREAD),
                            breakpoint_generation: Some(i as u64),
                        });
                        if go.recv().is_err() {
                            open = true;
                        }
                    }
                    if current != Some(p.thread) {
                        control.set_current_thread(Some(p.thread));
                        current = Some(p.thread);
                    }
                    progress.cycles.store(i as u64, Ordering::SeqCst);
                    let loc = SourceLocation::new(0, p.start, p.end);
                    storage.set_global("POS", Value::LInt(i as i64));
                    let mut ctx = EvalContext {
                        storage: &mut storage,
                        registry: &registry,
                        profile: DateTimeProfile::default(),
                        now: RtDuration::from_nanos(i as i64),
                        debug: None,
                        call_depth: p.depth,
                        functions: None,
                        stdlib: None,
                        function_blocks: None,
                        classes: None,
                        using: None,
                        access: None,
                        current_instance: None,
                        return_name: None,
                        loop_depth: 0,
                        pause_requested: false,
                        execution_deadline: None,
                    };
                    hook.on_statement_with_context(&mut ctx, Some(&loc), p.depth);
                }
            });
            if let Err(p) = r {
                out.panic = Some(p);
            }
            out
        })
}

pub fn bp_ranges(w: &World, stmts: &[u32]) -> Vec<(u32, u32)> {
    stmts.iter().filter_map(|s| w.loc_of.get(s).copied()).collect()
}

pub fn sel_thread(w: &World, sel: ThreadSel, current: Option<u32>) -> Option<u32> {
    resolve_sel(w, sel, current)
}

#[derive(Default)]
pub struct SnapshotChecks {
    pub present: u32,
    pub content: u32,
}

/// The snapshot clause at a stop. Runtime engine: `snapshot()` is Some, its `now` is the
/// simulated time of the cycle in progress, and - for at most three stops per script whose
/// position is certain and at call depth 0 (inside a call the reference's by-reference
/// IN_OUT/OUT bindings and the runtime's copy-out differ legitimately) - its storage equals
/// the reference state immediately before the statement. Hook engine: the snapshot holds
/// the storage and time the hook call of exactly this position was given (POS marker).
#[allow(clippy::too_many_arguments)]
fn check_snapshot(
    w: &World,
    control: &DebugControl,
    rec: &StopRec,
    p: usize,
    sure: Option<usize>,
    token: usize,
    engine: Engine,
    done: &mut SnapshotChecks,
) -> Result<(), String> {
    let Some(snap) = control.snapshot() else {
        return Err(format!(
            "stopped ({:?}) at {} but DebugControl::snapshot() is None: a client that inspects the stopped program (stackTrace / scopes / variables) has to lock the runtime, which the parked cycle thread holds - it can never send the continue",
            rec.reason,
            w.describe(p)
        ));
    };
    done.present += 1;
    match engine {
        Engine::Hook => {
            let want = Value::LInt(token as i64);
            let got = snap.storage.get_global("POS").cloned();
            if got.as_ref() != Some(&want) || snap.now.as_nanos() != token as i64 {
                return Err(format!(
                    "stale snapshot at the stop ({:?}) at {}: it holds the storage of the hook call of position {:?} (time {} ns), the stop was produced by the hook call of position {token}",
                    rec.reason,
                    w.describe(p),
                    got,
                    snap.now.as_nanos()
                ));
            }
            done.content += 1;
        }
        Engine::Runtime => {
            let want_now = w.time_in_cycle(token);
            if snap.now.as_nanos() != want_now {
                return Err(format!(
                    "snapshot at the stop ({:?}) at {} carries time {} ns, the cycle in progress runs at {} ns",
                    rec.reason,
                    w.describe(p),
                    snap.now.as_nanos(),
                    want_now
                ));
            }
            let Some(q) = sure else { return Ok(()) };
            if done.content >= 3 || w.pos[q].depth != 0 {
                return Ok(());
            }
            let Some(want) = w.reference_state_before(q) else {
                return Ok(());
            };
            done.content += 1;
            let got = super::world::flatten_storage(&snap.storage, &w.decl);
            let skip = w.for_control_paths();
            let under = |path: &str, prefix: &str| {
                path == prefix
                    || (path.starts_with(prefix)
                        && matches!(path.as_bytes().get(prefix.len()), Some(b'.') | Some(b'[')))
            };
            let mut diffs = Vec::new();
            for (path, wv) in &want {
                if w.decl
                    .instances
                    .iter()
                    .any(|(inst, _)| path.strip_suffix(".#type") == Some(inst.as_str()))
                    || skip.iter().any(|s| under(path, s))
                {
                    continue;
                }
                match got.get(path) {
                    Some(gv) if gv == wv => {}
                    Some(gv) => diffs.push(format!(
                        "{path}: snapshot {} , state before the statement {}",
                        gv.show(),
                        wv.show()
                    )),
                    None => diffs.push(format!("{path}: missing in the snapshot")),
                }
            }
            if !diffs.is_empty() {
                diffs.truncate(6);
                return Err(format!(
                    "the snapshot at the stop ({:?}) at {} is not the state of the program at that statement (stale or wrong snapshot):\n  {}",
                    rec.reason,
                    w.describe(p),
                    diffs.join("\n  ")
                ));
            }
        }
    }
    Ok(())
}

pub fn run_lockstep(
    w: &World,
    script: &LockScript,
    resolved: &ResolvedLock,
    writes: &BTreeMap<usize, UserWrite>,
    engine: Engine,
) -> Result<Outcome, String> {
    let mut real = None;
    let control = match engine {
        Engine::Runtime => {
            let mut r = match catch(|| Real::compile(&w.source)) {
                Ok(Ok(r)) => r,
                Ok(Err(e)) => return Ok(Outcome::Internal(format!("second compile failed: {e}"))),
                Err(p) => {
                    return Ok(Outcome::Internal(format!("second compile panicked: {p}")))
                }
            };
            let control = r.harness.runtime_mut().enable_debug();
            let _ = r.harness.runtime_mut().ensure_background_thread_id();
            real = Some(r);
            control
        }
        Engine::Hook => DebugControl::new(),
    };
    let plans = gate_plans(w, script, engine);
    let (tx, rx) = channel();
    control.set_stop_sender(tx.clone());
    let (go_tx, go_rx) = channel::<()>();
    let mut go_tx = Some(go_tx);

    let mut model = Model::new(w);
    // ---- before the start
    let bps = set_bps(&control, w, &resolved.bps);
    let pause = if script.entry {
        control.pause_entry();
        None
    } else {
        script.pause.map(|sel| {
            let t = resolve_sel(w, sel, None);
            let _ = control.apply_action(ControlAction::Pause(t));
            t
        })
    };
    if let Some(r) = script.early_step {
        let t = r.sel().and_then(|s| resolve_sel(w, s, None));
        let _ = control.apply_action(action_of(r, t));
    }
    model.start(bps, pause, script.entry, script.early_step.is_some());

    let gate = Arc::new(Barrier::new(2));
    let shared = Shared::new();
    let spawned = match real {
        Some(real) => spawn_cycle_thread(
            real,
            Arc::new(w.decl.clone()),
            Arc::new(w.inputs.clone()),
            control.clone(),
            gate.clone(),
            shared.clone(),
            Some((tx, go_rx)),
        ),
        None => spawn_hook_thread(
            Arc::new(w.pos.clone()),
            control.clone(),
            gate.clone(),
            shared.clone(),
            plans.keys().copied().collect(),
            tx,
            go_rx,
        ),
    };
    let handle = match spawned {
        Ok(h) => h,
        Err(e) => return Ok(Outcome::Internal(format!("cannot spawn the executing thread: {e}"))),
    };
    gate.wait();

    let mut next = 0usize;
    let mut finalised = false;
    let mut nstops = 0usize;
    let mut writes_issued = 0u32;
    let mut snapshot_checks = SnapshotChecks::default();
    let mut verdict: Result<Option<String>, String> = Ok(None); // Ok(Some(wedge text))
    loop {
        match await_event(&rx, &control, &shared) {
            Event::Stop(stop) if boundary_of(&stop).is_some() => {
                // the executing thread waits at a gate (runtime engine: a cycle is complete)
                let key = boundary_of(&stop).unwrap_or(0);
                if finalised {
                    continue; // the gates are open
                }
                let (f, what, cmds) = match plans.get(&key) {
                    Some(p) => (p.f, p.what.clone(), p.cmds.clone()),
                    None => (
                        w.first_of_cycle(key + 1),
                        format!("the end of cycle {}", key + 1),
                        Vec::new(),
                    ),
                };
                if let Err(e) = model.gate(f, &what) {
                    verdict = Err(e);
                    break;
                }
                for c in &cmds {
                    // the thread a command without thread argument falls back to
                    let current = control.current_thread();
                    match c {
                        BoundaryCmd::Pause(sel) => {
                            let t = resolve_sel(w, *sel, None);
                            model.gate_pause(f, &what, t, false);
                            let _ = control.apply_action(ControlAction::Pause(t));
                        }
                        BoundaryCmd::Entry => {
                            model.gate_pause(f, &what, None, true);
                            control.pause_entry();
                        }
                        BoundaryCmd::SetBps(sels) => {
                            let b = set_bps(&control, w, &resolve_bps(w, sels));
                            model.set_breakpoints(b);
                        }
                        BoundaryCmd::ClearBps => {
                            control.clear_breakpoints();
                            model.set_breakpoints(Vec::new());
                        }
                        BoundaryCmd::Continue => {
                            model.gate_continue(&what);
                            let _ = control.apply_action(ControlAction::Continue);
                        }
                        BoundaryCmd::Step(r) => {
                            let t = r.sel().and_then(|s| resolve_sel(w, s, None));
                            model.gate_step(f, &what, *r, t.or(current));
                            let _ = control.apply_action(action_of(*r, t));
                        }
                    }
                }
                if let Some(go) = &go_tx {
                    let _ = go.send(());
                }
            }
            Event::Stop(stop) => {
                nstops += 1;
                let rec = StopRec::of(&stop);
                let token = shared.cycles.load(Ordering::SeqCst) as usize;
                let (cycle, exact) = match engine {
                    Engine::Runtime => (Some(token), None),
                    Engine::Hook => (None, Some(token)),
                };
                let p = match model.observe(&rec, cycle, exact) {
                    Ok(p) => p,
                    Err(e) => {
                        verdict = Err(e);
                        break;
                    }
                };
                // while execution is stopped the debugger must hold a snapshot of the stopped
                // program (DebugSnapshot: "Snapshot of runtime state at a stop"): every
                // consumer (trust-debug's PausedStateView, the control endpoint's debug
                // handlers) reads state from it and otherwise falls back to locking the
                // runtime, which the parked cycle thread holds for the whole cycle
                if let Err(e) =
                    check_snapshot(w, &control, &rec, p, model.sure_position(), token, engine, &mut snapshot_checks)
                {
                    verdict = Err(e);
                    break;
                }
                // exactly one notification per stop: after any call that takes the debug
                // state's lock, every notification of the current stop has been sent
                let _ = control.mode();
                match rx.try_recv() {
                    Ok(second) => {
                        verdict = Err(format!(
                            "two stop notifications for one stop: {:?} at {} and then {:?} at {} without a resume in between",
                            rec.reason,
                            w.describe(p),
                            second.reason,
                            w.describe_start(second.location.map(|l| l.start))
                        ));
                        break;
                    }
                    Err(TryRecvError::Empty) => {}
                    Err(TryRecvError::Disconnected) => {
                        verdict = Err(format!(
                            "the cycle thread finished while stopped at {} (no resume was issued)",
                            w.describe(p)
                        ));
                        break;
                    }
                }
                if next < script.reactions.len() {
                    let r = &script.reactions[next];
                    match &r.bps {
                        BpEdit::Keep => {}
                        BpEdit::Set(_) => {
                            let b = set_bps(&control, w, &resolved.reaction_bps[next]);
                            model.set_breakpoints(b);
                        }
                        BpEdit::Clear => {
                            control.clear_breakpoints();
                            model.set_breakpoints(Vec::new());
                        }
                    }
                    if let Some(sel) = r.noise_pause {
                        let t = resolve_sel(w, sel, rec.thread);
                        let _ = control.apply_action(ControlAction::Pause(t));
                        model.note(format!("  pause({t:?}) while stopped"));
                    }
                    if let Some(uw) = writes.get(&next) {
                        if issue_write(&control, &stop, uw) {
                            writes_issued += 1;
                            model.note(format!(
                                "  user write {}.{} := {}",
                                uw.instance,
                                uw.var,
                                uw.value.show()
                            ));
                        }
                    }
                    let resume = r.resume_for(matches!(
                        rec.reason,
                        DebugStopReason::Pause | DebugStopReason::Entry
                    ));
                    let t = resume.sel().and_then(|s| resolve_sel(w, s, rec.thread));
                    let then_pause = r.then_pause && matches!(resume, Resume::Continue);
                    model.resume(resume, t, rec.thread, then_pause);
                    let _ = control.apply_action(action_of(resume, t));
                    if then_pause {
                        let _ = control.apply_action(ControlAction::Pause(None));
                    }
                    next += 1;
                } else {
                    control.clear_breakpoints();
                    model.finalise();
                    let _ = control.apply_action(ControlAction::Continue);
                    finalised = true;
                    go_tx = None; // no more commands between cycles: open the gate
                }
            }
            Event::Completed => {
                if let Err(e) = model.completed() {
                    verdict = Err(e);
                }
                break;
            }
            Event::Wedged(how) => {
                verdict = Ok(Some(format!(
                    "no stop notification and no completion after `{}`: {how}",
                    model.log.last().cloned().unwrap_or_default().trim()
                )));
                break;
            }
        }
    }
    let _ = finalised;
    drop(go_tx.take()); // whatever the verdict: the cycle thread must not wait at a boundary
    let _ = control.drain_stops();
    let trail = |model: &Model| -> String {
        let n = model.log.len();
        let from = n.saturating_sub(14);
        format!(
            "{}{}",
            if from > 0 { "  ...\n" } else { "" },
            model.log[from..]
                .iter()
                .map(|l| format!("  {l}"))
                .collect::<Vec<_>>()
                .join("\n")
        )
    };
    match verdict {
        Err(e) => {
            let _ = wind_down(&control, &rx, &shared, handle);
            Err(format!("{e}\n--- script so far\n{}", trail(&model)))
        }
        Ok(Some(wedge)) => {
            let rescued = wind_down(&control, &rx, &shared, handle).is_some();
            Ok(Outcome::Wedge(format!(
                "{wedge}{}\n--- script so far\n{}",
                if rescued {
                    " (further continue/step commands got it going again)"
                } else {
                    " (the cycle thread stayed blocked; leaked)"
                },
                trail(&model)
            )))
        }
        Ok(None) => {
            let out = match handle.join() {
                Ok(o) => o,
                Err(_) => return Err("the cycle thread died".into()),
            };
            if engine == Engine::Runtime {
                check_transparency(w, &out)
                    .map_err(|e| format!("{e}\n--- script so far\n{}", trail(&model)))?;
            } else if let Some(p) = &out.panic {
                return Err(format!(
                    "the statement hook panicked: {p}\n--- script so far\n{}",
                    trail(&model)
                ));
            }
            let mut labels = Vec::new();
            for (k, v) in &model.reasons {
                if *v > 0 {
                    labels.push(format!("lock:stop:{k}"));
                }
            }
            for (k, v) in &model.commands {
                if *v > 0 {
                    labels.push(format!("lock:cmd:{k}"));
                }
            }
            labels.push(format!(
                "lock:stops={}",
                match nstops {
                    0 => "0",
                    1..=3 => "1-3",
                    4..=10 => "4-10",
                    _ => ">10",
                }
            ));
            if model.steps_at_depth > 0 {
                labels.push("lock:step_at_depth>=1".into());
            }
            if model.cross_thread_steps > 0 {
                labels.push("lock:step_names_other_thread".into());
            }
            if model.step_in_passes_other_threads > 0 {
                labels.push("lock:step_in_passes_statements_of_other_threads".into());
            }
            if model.ambiguous_stops > 0 {
                labels.push("lock:unpredicted_stop_with_several_candidate_positions".into());
            }
            if writes_issued > 0 {
                labels.push("lock:user_write".into());
            }
            if model.boundary_pauses > 0 {
                labels.push("lock:pause_while_running_at_a_gate".into());
            }
            if model.running_steps > 0 {
                labels.push("lock:step_while_running_at_a_gate".into());
            }
            if model.continue_then_pause > 0 {
                labels.push("lock:continue_then_pause".into());
            }
            if model.wait_loop_stops > 0 {
                labels.push("lock:pause_stop_from_the_wait_loop".into());
            }
            if snapshot_checks.present > 0 {
                labels.push("lock:snapshot_present_checked".into());
            }
            if snapshot_checks.content > 0 {
                labels.push("lock:snapshot_content_checked".into());
            }
            if model.running_steps_at_call_entry > 0 {
                labels.push(
                    "lock:step_over_or_out_while_running_between_call_hook_and_callee_hook".into(),
                );
            }
            if model.pause_origin_steps > 0 {
                labels.push("lock:step_from_pause_stop".into());
            }
            if model.pause_origin_over_out > 0 {
                labels.push("lock:step_over_or_out_from_pause_stop".into());
            }
            if model.pause_origin_shape > 0 {
                labels.push(
                    "lock:shape:deeper_stop_then_pause_on_a_call_statement_then_step_over_or_out"
                        .into(),
                );
            }
            Ok(Outcome::Done(Summary {
                labels,
                nontrivial: model.steps_at_depth > 0
                    || model.pause_origin_steps > 0
                    || model.running_steps_at_call_entry > 0,
                stops: nstops,
            }))
        }
    }
}

/// Queue a user write through the debugger, the way the adapter's setVariable does for
/// instance variables and globals. Applied by the runtime at the next cycle boundary.
fn issue_write(control: &DebugControl, _stop: &DebugStop, uw: &UserWrite) -> bool {
    // the instance id is looked up in the stop's snapshot (what the adapter shows the user)
    let prog = Program {
        types: vec![],
        pous: vec![],
        globals: vec![],
        instances: vec![],
    };
    let Some(value) = val_to_value(&uw.value, &prog) else {
        return false;
    };
    if uw.instance.is_empty() {
        control.enqueue_global_write(uw.var.as_str(), value);
        return true;
    }
    let Some(snap) = control.snapshot() else {
        return false;
    };
    let Some(trust_runtime::value::Value::Instance(id)) =
        snap.storage.get_global(uw.instance.as_str()).cloned()
    else {
        return false;
    };
    control.enqueue_instance_write(id, uw.var.as_str(), value);
    true
}

// ------------------------------------------------------------------------------ racy

pub struct RacyStats {
    pub stops: u64,
    pub pause_stops: u64,
    pub breakpoint_stops: u64,
    pub step_stops: u64,
    /// Pause stops at the position of the previous stop (the pause overtook the resume).
    pub pause_at_same_position: u64,
    /// Racer commands applied before the cycle thread had finished.
    pub racer_landed: u64,
    pub racer_total: u64,
    /// Step stops whose depth clause could be decided (origin depth unambiguous), and how
    /// many of them had a pause stop as origin.
    pub depth_clause_checks: u64,
    pub depth_clause_checks_from_pause: u64,
    pub snapshot_checks: u64,
}

impl RacyStats {
    pub fn new() -> RacyStats {
        RacyStats {
            stops: 0,
            pause_stops: 0,
            breakpoint_stops: 0,
            step_stops: 0,
            pause_at_same_position: 0,
            racer_landed: 0,
            racer_total: 0,
            depth_clause_checks: 0,
            depth_clause_checks_from_pause: 0,
            snapshot_checks: 0,
        }
    }
}

pub enum RacyOutcome {
    Done,
    Wedge(String),
    Internal(String),
}

pub fn run_racy_once(
    w: &World,
    script: &RacyScript,
    stats: &mut RacyStats,
) -> Result<RacyOutcome, String> {
    let mut real = match catch(|| Real::compile(&w.source)) {
        Ok(Ok(r)) => r,
        Ok(Err(e)) => return Ok(RacyOutcome::Internal(format!("second compile failed: {e}"))),
        Err(p) => return Ok(RacyOutcome::Internal(format!("second compile panicked: {p}"))),
    };
    let control = real.harness.runtime_mut().enable_debug();
    let _ = real.harness.runtime_mut().ensure_background_thread_id();
    let (tx, rx) = channel();
    control.set_stop_sender(tx);

    // every breakpoint location any party ever sets in this run
    let mut ever_bps: Vec<(u32, u32)> = Vec::new();
    let first = set_bps(&control, w, &resolve_bps(w, &script.bps));
    ever_bps.extend(first);
    if let Some(sel) = script.pause {
        let t = resolve_sel(w, sel, None);
        let _ = control.apply_action(ControlAction::Pause(t));
    }
    let racer_resumes = script.racer_resumes();
    let mut any_pause = script.pause.is_some();
    let mut any_step = false;
    for (_, c) in &script.racer {
        match c {
            RacerCmd::Pause(_) => any_pause = true,
            RacerCmd::Resume(r) if !matches!(r, Resume::Continue) => any_step = true,
            RacerCmd::SetBps(sels) => {
                for s in resolve_bps(w, sels) {
                    if let Some(l) = w.loc_of.get(&s) {
                        ever_bps.push(*l);
                    }
                }
            }
            _ => {}
        }
    }
    for r in &script.reactions {
        if r.noise_pause.is_some() {
            any_pause = true;
        }
        if !matches!(r.resume, Resume::Continue) || r.on_pause.is_some() {
            any_step = true;
        }
        if let BpEdit::Set(sels) = &r.bps {
            for s in resolve_bps(w, sels) {
                if let Some(l) = w.loc_of.get(&s) {
                    ever_bps.push(*l);
                }
            }
        }
    }

    let gate = Arc::new(Barrier::new(3));
    let shared = Shared::new();
    let handle = match spawn_cycle_thread(
        real,
        Arc::new(w.decl.clone()),
        Arc::new(w.inputs.clone()),
        control.clone(),
        gate.clone(),
        shared.clone(),
        None,
    ) {
        Ok(h) => h,
        Err(e) => return Ok(RacyOutcome::Internal(format!("cannot spawn the cycle thread: {e}"))),
    };
    // ---- the racer
    let racer_stop = Arc::new(AtomicBool::new(false));
    let racer_resume_count = Arc::new(AtomicU64::new(0));
    let racer = {
        let control = control.clone();
        let cmds = script.racer.clone();
        let gate = gate.clone();
        let stop = racer_stop.clone();
        let finished = shared.clone();
        let resumes = racer_resume_count.clone();
        let threads = w.threads.clone();
        // breakpoint sets are resolved up front (the racer does not see the world)
        let resolved: Vec<Vec<SourceLocation>> = script
            .racer
            .iter()
            .map(|(_, c)| match c {
                RacerCmd::SetBps(sels) => resolve_bps(w, sels)
                    .iter()
                    .filter_map(|s| location_of(w, *s))
                    .collect(),
                _ => Vec::new(),
            })
            .collect();
        std::thread::Builder::new()
            .name("c17-racer".into())
            .spawn(move || {
                let mut landed = 0u64;
                let mut total = 0u64;
                gate.wait();
                for (k, (delay, cmd)) in cmds.iter().enumerate() {
                    if stop.load(Ordering::SeqCst) {
                        break;
                    }
                    delay.wait();
                    let pick = |sel: ThreadSel| -> Option<u32> {
                        match sel {
                            ThreadSel::Unspecified => None,
                            ThreadSel::Current => control.current_thread(),
                            ThreadSel::Other(i) => {
                                if threads.is_empty() {
                                    Some(1)
                                } else {
                                    Some(threads[i as usize % threads.len()])
                                }
                            }
                            ThreadSel::Bogus => Some(BOGUS_THREAD),
                        }
                    };
                    let r = catch(|| match cmd {
                        RacerCmd::Pause(sel) => {
                            let _ = control.apply_action(ControlAction::Pause(pick(*sel)));
                        }
                        RacerCmd::SetBps(_) => control.set_breakpoints_for_file(
                            0,
                            resolved[k].iter().map(|l| DebugBreakpoint::new(*l)).collect(),
                        ),
                        RacerCmd::ClearBps => control.clear_breakpoints(),
                        RacerCmd::Resume(r) => {
                            // count before applying: the count is an upper bound at any time
                            resumes.fetch_add(1, Ordering::SeqCst);
                            let t = r.sel().and_then(pick);
                            let _ = control.apply_action(action_of(*r, t));
                        }
                    });
                    if r.is_err() {
                        break;
                    }
                    total += 1;
                    if !finished.finished.load(Ordering::SeqCst) {
                        landed += 1;
                    }
                }
                (landed, total)
            })
    };
    let racer = match racer {
        Ok(r) => r,
        Err(e) => {
            // the barrier waits for three parties: stand in for the racer
            let g = gate.clone();
            let stand_in = std::thread::spawn(move || {
                g.wait();
            });
            gate.wait();
            let _ = stand_in.join();
            let _ = wind_down(&control, &rx, &shared, handle);
            return Ok(RacyOutcome::Internal(format!("cannot spawn the racer: {e}")));
        }
    };
    gate.wait();

    // ---- the controller
    let mut recs: Vec<StopRec> = Vec::new();
    // the controller's answer to each stop: (command, it names the stopped thread)
    let mut answers: Vec<Option<(Resume, bool)>> = Vec::new();
    let mut controller_resumes = 0u64;
    let mut next = 0usize;
    let mut finalised = false;
    let mut racer_handle = Some(racer);
    let mut racer_result = (0u64, 0u64);
    let mut verdict: Result<Option<String>, String> = Ok(None);
    loop {
        match await_event(&rx, &control, &shared) {
            Event::Stop(stop) => {
                let rec = StopRec::of(&stop);
                if finalised {
                    verdict = Err(format!(
                        "stop ({:?}) at {} after the final clear-breakpoints + continue (the second command thread had already ended)",
                        rec.reason,
                        w.describe_start(rec.start)
                    ));
                    break;
                }
                recs.push(rec.clone());
                answers.push(None);
                if !racer_resumes {
                    // only this thread resumes, so the thread is still stopped: the snapshot
                    // clause (see `check_snapshot`) - present, and of the cycle in progress
                    let cycle = shared.cycles.load(Ordering::SeqCst) as usize;
                    match control.snapshot() {
                        None => {
                            verdict = Err(format!(
                                "stopped ({:?}) at {} but DebugControl::snapshot() is None (the second command thread only pauses and edits breakpoints, nobody has resumed): a client that inspects the stopped program has to lock the runtime, which the parked cycle thread holds",
                                rec.reason,
                                w.describe_start(rec.start)
                            ));
                            break;
                        }
                        Some(snap) => {
                            stats.snapshot_checks += 1;
                            if snap.now.as_nanos() != w.time_in_cycle(cycle) {
                                verdict = Err(format!(
                                    "snapshot at the stop ({:?}) at {} carries time {} ns, the cycle in progress runs at {} ns",
                                    rec.reason,
                                    w.describe_start(rec.start),
                                    snap.now.as_nanos(),
                                    w.time_in_cycle(cycle)
                                ));
                                break;
                            }
                        }
                    }
                    // a second notification before our resume means two stops without a
                    // resume in between
                    let _ = control.mode();
                    if let Ok(second) = rx.try_recv() {
                        verdict = Err(format!(
                            "two stop notifications without a resume in between: {:?} at {} and then {:?} at {} (the second command thread only pauses and edits breakpoints)",
                            rec.reason,
                            w.describe_start(rec.start),
                            second.reason,
                            w.describe_start(second.location.map(|l| l.start))
                        ));
                        break;
                    }
                }
                if next < script.reactions.len() {
                    let r = &script.reactions[next];
                    next += 1;
                    r.delay.wait();
                    match &r.bps {
                        BpEdit::Keep => {}
                        BpEdit::Set(sels) => {
                            let _ = set_bps(&control, w, &resolve_bps(w, sels));
                        }
                        BpEdit::Clear => control.clear_breakpoints(),
                    }
                    if let Some(sel) = r.noise_pause {
                        let t = resolve_sel(w, sel, rec.thread);
                        let _ = control.apply_action(ControlAction::Pause(t));
                    }
                    let resume = r.resume_for(matches!(
                        rec.reason,
                        DebugStopReason::Pause | DebugStopReason::Entry
                    ));
                    let t = resume.sel().and_then(|s| resolve_sel(w, s, rec.thread));
                    controller_resumes += 1;
                    if let Some(a) = answers.last_mut() {
                        *a = Some((resume, t.is_none() || t == rec.thread));
                    }
                    let _ = control.apply_action(action_of(resume, t));
                } else {
                    // end of script: stop the racer, then the final clear + continue
                    racer_stop.store(true, Ordering::SeqCst);
                    if let Some(h) = racer_handle.take() {
                        racer_result = h.join().unwrap_or((0, 0));
                    }
                    control.clear_breakpoints();
                    controller_resumes += 1;
                    let _ = control.apply_action(ControlAction::Continue);
                    finalised = true;
                    // notifications sent before the final continue took the lock
                    while let Ok(s) = rx.try_recv() {
                        if !racer_resumes {
                            verdict = Err(format!(
                                "two stop notifications without a resume in between: {:?} at {} and then {:?} at {}",
                                rec.reason,
                                w.describe_start(rec.start),
                                s.reason,
                                w.describe_start(s.location.map(|l| l.start))
                            ));
                        }
                        recs.push(StopRec::of(&s));
                        answers.push(None);
                    }
                    if verdict.is_err() {
                        break;
                    }
                }
            }
            Event::Completed => break,
            Event::Wedged(how) => {
                verdict = Ok(Some(format!(
                    "no stop notification and no completion: {how} ({} stops so far, {} reactions used{})",
                    recs.len(),
                    next,
                    if finalised { ", after the final clear + continue" } else { "" }
                )));
                break;
            }
        }
    }
    racer_stop.store(true, Ordering::SeqCst);
    if let Some(h) = racer_handle.take() {
        racer_result = h.join().unwrap_or((0, 0));
    }
    stats.racer_landed += racer_result.0;
    stats.racer_total += racer_result.1;
    let _ = control.drain_stops();
    let render = |recs: &[StopRec]| -> String {
        let from = recs.len().saturating_sub(10);
        recs[from..]
            .iter()
            .map(|r| {
                format!(
                    "  stop {:?} at {} thread {:?}",
                    r.reason,
                    w.describe_start(r.start),
                    r.thread
                )
            })
            .collect::<Vec<_>>()
            .join("\n")
    };
    let out = match verdict {
        Err(e) => {
            let _ = wind_down(&control, &rx, &shared, handle);
            return Err(format!("{e}\n--- last stops\n{}", render(&recs)));
        }
        Ok(Some(wedge)) => {
            let rescued = wind_down(&control, &rx, &shared, handle).is_some();
            return Ok(RacyOutcome::Wedge(format!(
                "{wedge}{}\n--- last stops\n{}",
                if rescued {
                    " (further continue/step commands got it going again)"
                } else {
                    " (the cycle thread stayed blocked; leaked)"
                },
                render(&recs)
            )));
        }
        Ok(None) => match handle.join() {
            Ok(o) => o,
            Err(_) => return Err("the cycle thread died".into()),
        },
    };
    check_transparency(w, &out).map_err(|e| format!("{e}\n--- last stops\n{}", render(&recs)))?;

    // ---- the depth clause, where it can be decided without knowing the interleaving: only
    // the controller issues steps (racer without resume commands), it issues them while the
    // thread is stopped, every later command replaces the step, so a Step stop right after a
    // step-over/out answer is the stop of that step. The origin's call depth is taken from the
    // trace when every occurrence of its location has the same depth; the stop's depth is
    // the smallest depth any occurrence of its location has.
    if !racer_resumes {
        for i in 0..recs.len().saturating_sub(1) {
            let Some((cmd, true)) = answers.get(i).copied().flatten() else {
                continue;
            };
            let what = match cmd {
                Resume::StepOver(_) => "step-over",
                Resume::StepOut(_) => "step-out",
                _ => continue,
            };
            if recs[i + 1].reason != DebugStopReason::Step {
                continue;
            }
            let (Some(a), Some(b)) = (recs[i].start, recs[i + 1].start) else {
                continue;
            };
            let mut origin = w.pos.iter().filter(|p| p.start == a).map(|p| p.depth);
            let Some(d) = origin.next() else { continue };
            if origin.any(|x| x != d) {
                continue;
            }
            let Some(stop_depth) = w.pos.iter().filter(|p| p.start == b).map(|p| p.depth).min()
            else {
                continue;
            };
            let limit = if what == "step-out" { d.saturating_sub(1) } else { d };
            stats.depth_clause_checks += 1;
            if matches!(recs[i].reason, DebugStopReason::Pause | DebugStopReason::Entry) {
                stats.depth_clause_checks_from_pause += 1;
            }
            if stop_depth > limit {
                return Err(format!(
                    "{what} issued from a {:?} stop at call depth {d} ({}) stopped at call depth {stop_depth} ({})\n--- stops up to there\n{}",
                    recs[i].reason,
                    w.describe_start(Some(a)),
                    w.describe_start(Some(b)),
                    render(&recs[..=i + 1])
                ));
            }
        }
    }

    // ---- stops: location, order, reasons, count
    let mut last: Option<usize> = None;
    for (i, r) in recs.iter().enumerate() {
        let fail = |what: String| -> String {
            format!("{what}\n--- stops up to there\n{}", render(&recs[..=i]))
        };
        let Some(start) = r.start else {
            return Err(fail(format!(
                "stop notification {} ({:?}) carries no location",
                i + 1,
                r.reason
            )));
        };
        let from = match (r.reason, last) {
            (_, None) => 0,
            // a pause request may overtake the resume: the cycle thread is stopped again
            // at the statement it was stopped at
            (DebugStopReason::Pause, Some(l)) => l,
            (_, Some(l)) => l + 1,
        };
        let Some(q) = (from..w.pos.len()).find(|k| w.pos[*k].start == start) else {
            return Err(fail(format!(
                "stop {} ({:?}) at {}: the executed-statement trace has no such position {} the previous stop{}",
                i + 1,
                r.reason,
                w.describe_start(Some(start)),
                if r.reason == DebugStopReason::Pause { "at or after" } else { "after" },
                match last {
                    Some(l) => format!(" ({})", w.describe(l)),
                    None => String::new(),
                }
            )));
        };
        match r.reason {
            DebugStopReason::Breakpoint => {
                stats.breakpoint_stops += 1;
                if !w.has_bp(q, &ever_bps) {
                    return Err(fail(format!(
                        "breakpoint stop at {} but no breakpoint was ever set on a range overlapping that statement",
                        w.describe(q)
                    )));
                }
            }
            DebugStopReason::Step => {
                stats.step_stops += 1;
                if !any_step {
                    return Err(fail(format!(
                        "step stop at {} but the script has no step command",
                        w.describe(q)
                    )));
                }
            }
            DebugStopReason::Pause => {
                stats.pause_stops += 1;
                if !any_pause {
                    return Err(fail(format!(
                        "pause stop at {} but the script has no pause command",
                        w.describe(q)
                    )));
                }
                if Some(q) == last {
                    stats.pause_at_same_position += 1;
                }
            }
            DebugStopReason::Entry => {
                return Err(fail(format!("entry stop at {}", w.describe(q))));
            }
        }
        last = Some(q);
    }
    stats.stops += recs.len() as u64;
    let resumes = controller_resumes + racer_resume_count.load(Ordering::SeqCst);
    if recs.len() as u64 > resumes {
        return Err(format!(
            "{} stop notifications but only {} continue/step commands were issued: some stop was notified more than once or execution went on without a resume\n--- last stops\n{}",
            recs.len(),
            resumes,
            render(&recs)
        ));
    }
    Ok(RacyOutcome::Done)
}
