//! C11: STBC decode/validate/metadata/encode/apply under libFuzzer. The last input byte
//! selects the CRC fix-up (recompute / clear the CRC flag / leave), so that coverage
//! feedback works behind the checksum gate. Oracle = `tpverif::props::c11::check_container`
//! (the same one the proptest searches use); libFuzzer's panic hook turns any panic in the
//! code under test into a crash.
#![no_main]
use libfuzzer_sys::fuzz_target;

fuzz_target!(|data: &[u8]| {
    tpverif::props::c11::fuzz_one(data);
});
